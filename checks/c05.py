#!/usr/bin/env python
"""C05 - apply_matcher keeps exactly the candidate rows that satisfy the predicate."""
import sys, os
sys.path.insert(0, os.path.dirname(os.path.dirname(os.path.abspath(__file__))))
from checks.common import Check
from checks import stages
from engine import repo
from engine.numkernel import split
from harness import h_cand
from checks.c10 import split_stage

ALL_OPS = ['>=', '>', '<=', '<', '=', '!=']


def main():
    ck = Check('C05', repo.functions_encoded(['matcher/apply_matcher.py', 'utils/generic_helper.py',
                                              'utils/pickle.py', 'utils/validation.py']))
    ck.assumptions += stages.MODEL_ASSUMPTIONS + [
        'sim_function is an uninterpreted function of the two values (a fresh bounded integer per value '
        'pair, equal contents give equal scores); threshold a symbolic integer',
        'pickling of bound methods (utils/pickle.py, copyreg) and real processes are outside: joblib is '
        'the sequential stub; replays run real joblib']
    quick = ck.tier == 'quick'
    P = ['C05', 'CRASH', 'C12']
    ck.bounds = dict(candset='1..3 rows (4 in the thorough tier) referencing 2x2 / 2x1 tables, any '
                             'keys with repeats', ops=ALL_OPS, split_table='len <= 2^16, <= 8 chunks')
    split_stage(ck, 6 if quick else 16, 16)
    base = dict(mode='matcher', props=P)
    # cached token path (len(l)+len(r) < 2*len(candset)) with missing values
    ck.e2('cached-missing', h_cand.make(dict(base, nl=2, nr=2, ncand=[3], missing='sym', tokenizer=[True],
                                             comp_ops=['>=', '!='], allow_missing=[False, True],
                                             out_sim_score=[True], out_attrs=[(None, None)],
                                             n_jobs=[1], extra_col=[False], bound_method=[False])))
    # uncached path, every operator, tokenizer or None
    ck.e2('uncached-ops', h_cand.make(dict(base, nl=2, nr=2, ncand=[1, 2], missing=False,
                                           tokenizer=[True, False], comp_ops=ALL_OPS,
                                           allow_missing=[False], out_sim_score=[True, False],
                                           out_attrs=[(None, None)], n_jobs=[1, 2], extra_col=[False],
                                           bound_method=[False, True])))
    # uncached path with three candidate rows (tables large enough), missing values on the left only
    ck.e2('uncached-3rows', h_cand.make(dict(base, nl=3, nr=3, k=1, kmin=1, ncand=[3], missing='sym', missing_r=False,
                                             tokenizer=[True], comp_ops=['>='], allow_missing=[True],
                                             out_sim_score=[True], out_attrs=[(None, None)], n_jobs=[1],
                                             extra_col=[False], bound_method=[False])))
    # both paths, splitting, projection, extra columns, arbitrary index labels
    ck.e2('split-projection', h_cand.make(dict(base, nl=2, nr=1, ncand=[2, 3], missing='sym',
                                               tokenizer=[True, False], comp_ops=['>=', '<'],
                                               allow_missing=[True], out_sim_score=[True],
                                               out_attrs=[(None, None), (['x'], ['y', 'attr']), ([], ['id'])],
                                               n_jobs=[1, 2, 3], extra_col=[False, True],
                                               cand_index=[None, [5, 5, 2]], bound_method=[True])))
    if not quick:
        ck.e2('four-rows', h_cand.make(dict(base, nl=2, nr=1, ncand=[4], missing='sym', tokenizer=[True, False],
                                            comp_ops=['>=', '='], allow_missing=[False, True],
                                            out_sim_score=[True], out_attrs=[(None, None)],
                                            n_jobs=[1, 2, 4], extra_col=[False], bound_method=[False])))
    ck.finish()


if __name__ == '__main__':
    main()
