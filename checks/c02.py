#!/usr/bin/env python
"""C02 - set-similarity joins return only qualifying pairs, once, with the true score."""
import sys, os
sys.path.insert(0, os.path.dirname(os.path.dirname(os.path.abspath(__file__))))
from checks.common import Check
from checks import stages
from engine import repo
from harness import h_core, h_join


def main():
    ck = Check('C02', repo.functions_encoded(stages.JOIN_FILES))
    ck.assumptions += stages.MODEL_ASSUMPTIONS + stages.CORE_ASSUMPTIONS
    quick = ck.tier == 'quick'
    P = ['C02', 'CRASH']
    ops = ['>=', '>', '=']
    shape = dict(nl=1, nr=2, k=3) if quick else dict(nl=2, nr=2, k=2)
    ck.bounds = dict(core=shape, api=dict(rows='2x2', tokens_per_cell=1),
                     thresholds='grid per measure (soundness needs no kernel contract: the final '
                                'verification step is what is checked)')
    ck.outside += ['correctness of py_stringmatching measures (they run for real; the reference is '
                   'the three-line formula)', 'tables beyond the bounds', 'real joblib', '.pyx']
    # token-rich rows on the per-split functions, arbitrary token order, real kernel
    for measure, thr in (('JACCARD', [0.3, 0.5, 0.8]), ('COSINE', [0.5, 0.7]), ('DICE', [0.5, 0.8])):
        ck.e2('core-%s' % measure, h_core.make(dict(
            entry='set_sim_join', measure=measure, thresholds=thr, comp_ops=ops,
            out_sim_score=[True], props=P, **shape)), bounds=dict(thresholds=thr, **shape))
    ck.e2('core-OC', h_core.make(dict(entry='oc_split', measure='OVERLAP_COEFFICIENT',
                                      sym_threshold=True, comp_ops=ops, props=P, nl=1, nr=2, k=3)),
          bounds=dict(threshold='symbolic double in (0,1]', rows='1x2', k=3))
    ck.e2('core-overlap', h_core.make(dict(entry='filter_split', filter='OverlapFilter',
                                           measure='OVERLAP', thresholds=[1, 2, 3], comp_ops=ops,
                                           props=P, **shape)))
    if not quick:
        for measure, thr in (('JACCARD', [0.5, 0.8]), ('COSINE', [0.7]), ('DICE', [0.8])):
            ck.e2('core-%s-1x2k3' % measure, h_core.make(dict(
                entry='set_sim_join', measure=measure, thresholds=thr, comp_ops=ops, out_sim_score=[True],
                props=P, nl=1, nr=2, k=3)), bounds=dict(thresholds=thr, rows='1x2', k=3))
    # unconstrained kernel + symbolic threshold: soundness holds whatever the arithmetic
    for measure in ('JACCARD', 'COSINE', 'DICE'):
        ck.e2('core-free-%s' % measure, h_core.make(dict(
            entry='set_sim_join', measure=measure, kernel='free', comp_ops=ops, nl=1, nr=1,
            k=2, props=P)), bounds=dict(kernel='unconstrained stubs', rows='1x1', k=2,
                                        threshold='symbolic double in (0,1]'))
        ck.e2('core-free-%s-1x2' % measure, h_core.make(dict(
            entry='set_sim_join', measure=measure, kernel='free', comp_ops=ops, nl=1, nr=2,
            k=1, kmin=0, props=P)), bounds=dict(kernel='unconstrained stubs', rows='1x2', k=1,
                                                threshold='symbolic double in (0,1]'))
    # the verification step with symbolic set sizes and a symbolic double threshold
    from harness import h_verify
    ck.e2('verify-step', h_verify.make(dict(measures=['JACCARD', 'COSINE', 'DICE', 'OVERLAP_COEFFICIENT'],
                                            N=32 if quick else 64, comp_ops=ops, props=P)),
          bounds=dict(sizes='all 1 <= overlap <= min(n,m), n,m <= %d' % (32 if quick else 64),
                      threshold='every double in [1e-4, 1]'), chunk_paths=1, split=2)
    # whole API over the pandas model: positional row ids after dropna, per-job chunks
    for e in stages.SET_JOINS:
        ck.e2('api-%s' % e, h_join.make(stages.join_cfg(
            e, nl=2, nr=2 if quick else 3, k=1, kmin=0, missing='sym', allow_missing=[False],
            comp_ops=ops if not quick else ['>=', '='], n_jobs=[1, 2], out_sim_score=[True],
            out_attrs=[(None, None), (['x'], ['y'])], props=P, validate_every=60)))
    ck.finish()


if __name__ == '__main__':
    main()
