#!/usr/bin/env python
"""C08 - missing join values are handled exactly as allow_missing says."""
import sys, os
sys.path.insert(0, os.path.dirname(os.path.dirname(os.path.abspath(__file__))))
from checks.common import Check
from checks import stages
from engine import repo
from harness import h_join


def main():
    ck = Check('C08', repo.functions_encoded(stages.JOIN_FILES + stages.FILTER_FILES))
    ck.assumptions += stages.MODEL_ASSUMPTIONS
    quick = ck.tier == 'quick'
    P = ['C08', 'CRASH']
    dims = dict(missing='sym', allow_missing=[False, True], out_sim_score=[True, False], kmin=1, k=1,
                props=P, validate_every=40, index_labels=[None, ([7, 7, 9], ['a', 'b', 'a'])],
                extra_none=[True])
    if quick:
        shapes = [dict(nl=2, nr=2, n_jobs=[1, 2])]
        outs = [[(None, None)], [(['x'], ['y', 'attr'])]]
    else:
        shapes = [dict(nl=2, nr=2, n_jobs=[1, 2, 3]), dict(nl=3, nr=2, n_jobs=[1]),
                  dict(nl=2, nr=3, n_jobs=[2])]
        outs = [[(None, None), (['x'], ['y', 'attr'])]]
    ck.bounds = dict(tables=[(s['nl'], s['nr']) for s in shapes], tokens_per_cell=1,
                     missing='every distribution of missing flags (symbolic)',
                     flags='allow_missing, out_sim_score, n_jobs, output attributes')
    ck.outside += ['tables larger than the bounds', 'real joblib process pools', '.pyx twins']
    for si, shape in enumerate(shapes):
        for oi, out in enumerate(outs):
            for e in stages.SET_JOINS:
                cfg = stages.join_cfg(e, out_attrs=out, **dims)
                cfg.update(shape)
                # 'the part of the result over present values is unchanged': completeness / soundness of
                # the present pairs while some rows are missing belongs to this property too
                cfg['props'] = P + ['C01', 'C02']
                ck.e2('%s-%dx%d-o%d' % (e, shape['nl'], shape['nr'], oi), h_join.make(cfg),
                      stop_on_violation=True)
            for f in stages.FILTERS:
                cfg = stages.filter_cfg(f, out_attrs=out, **dims)
                cfg.update(shape)
                if f != 'OverlapFilter':
                    cfg['out_sim_score'] = [False]
                ck.e2('%s-%dx%d-o%d' % (f, shape['nl'], shape['nr'], oi), h_join.make(cfg),
                      stop_on_violation=True)
    # filter_pair / filter_candset / apply_matcher: pairs with a missing side are dropped iff not allow_missing
    from harness import h_pair, h_cand
    for f in stages.FILTERS:
        ck.e2('pair-%s' % f, h_pair.make(dict(filter=f, measure='JACCARD' if f != 'OverlapFilter' else 'OVERLAP',
                                              k=1, kmin=0, thresholds=[0.5] if f != 'OverlapFilter' else [1],
                                              missing='sym', nonempty='sym', allow_missing=[False, True],
                                              allow_empty=[True], props=P)))
    ck.e2('candset-missing', h_cand.make(dict(mode='candset', filter='SizeFilter', measure='JACCARD', thresholds=[0.5],
                                              nl=2, nr=2, ncand=[2], k=1, kmin=0, missing='sym',
                                              allow_missing=[False, True], n_jobs=[1, 2], extra_col=[False],
                                              props=['C06', 'C08', 'CRASH'])))
    ck.e2('matcher-missing', h_cand.make(dict(mode='matcher', nl=2, nr=2, ncand=[2, 3], missing='sym', tokenizer=[True, False],
                                              comp_ops=['>=', '!='], allow_missing=[False, True], out_sim_score=[True],
                                              out_attrs=[(None, None)], n_jobs=[1, 2], extra_col=[False],
                                              bound_method=[False], props=['C05', 'C08', 'CRASH'])))
    ck.finish()


if __name__ == '__main__':
    main()
