#!/usr/bin/env python
"""C09 - empty token sets are admitted iff allow_empty, independent of threshold."""
import sys, os
sys.path.insert(0, os.path.dirname(os.path.dirname(os.path.abspath(__file__))))
from checks.common import Check
from checks import stages
from engine import repo
from harness import h_core, h_join


def main():
    ck = Check('C09', repo.functions_encoded(stages.JOIN_FILES + stages.FILTER_FILES))
    ck.assumptions += stages.MODEL_ASSUMPTIONS + stages.CORE_ASSUMPTIONS
    quick = ck.tier == 'quick'
    P = ['C09', 'CRASH']
    ops = ['>=', '>', '=']
    ck.bounds = dict(api='2x2 rows, 0..1 token per cell, allow_empty x operator x threshold grid x '
                         'n_jobs in {1,2}', core='2x2 rows, 0..2 tokens, symbolic threshold, '
                                                 'unconstrained kernel stubs')
    ck.outside += ['unpadded q-gram tokenizers on short strings (covered for edit distance in C03)',
                   'tables beyond the bounds']
    for e in stages.SET_JOINS:
        ck.e2('api-%s' % e, h_join.make(stages.join_cfg(
            e, nl=2, nr=2, k=1, kmin=0, allow_empty=[True, False], comp_ops=ops,
            thresholds=[0.5, 1.0] if e != 'overlap_join' else [1], n_jobs=[1, 2],
            out_attrs=[(None, None), (['x'], ['y'])],
            props=P, validate_every=60)))
    for f in stages.FILTERS:
        for measure in (['JACCARD', 'OVERLAP'] if quick else ['JACCARD', 'COSINE', 'DICE', 'OVERLAP']):
            if f == 'OverlapFilter' and measure != 'OVERLAP':
                continue
            if f == 'OverlapFilter':
                cfg = stages.filter_cfg(f, comp_ops=ops, thresholds=[1])
            else:
                cfg = stages.filter_cfg(f, measure, thresholds=[1] if measure == 'OVERLAP' else [0.5, 1.0])
            cfg.update(nl=2, nr=2, k=1, kmin=0, allow_empty=[True, False], n_jobs=[1, 2], props=P,
                       validate_every=60)
            ck.e2('api-%s-%s' % (f, measure), h_join.make(cfg))
    # whatever the threshold / arithmetic: symbolic threshold, unconstrained kernel stubs
    for measure in ('JACCARD', 'COSINE', 'DICE'):
        ck.e2('core-free-%s' % measure, h_core.make(dict(
            entry='set_sim_join', measure=measure, kernel='free', comp_ops=ops,
            nl=1 if quick else 2, nr=2, k=1,
            kmin=0, allow_empty=[True, False], props=P)))
    ck.e2('core-OC', h_core.make(dict(entry='oc_split', measure='OVERLAP_COEFFICIENT', kernel='free',
                                      comp_ops=ops, nl=2, nr=2, k=1, kmin=0,
                                      allow_empty=[True, False], props=P)))
    ck.finish()


if __name__ == '__main__':
    main()
