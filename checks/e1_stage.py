"""E1 stages shared by several property checks: translator validation, kernel contract K,
size-filter tightness, vacuity twins."""
import random
import time

from engine import repo
from engine.numkernel import fp, kernel

FUNCS = ('get_size_lower_bound', 'get_size_upper_bound', 'get_prefix_length', 'get_overlap_threshold')


def validate_translator(seed=0, per_fn=170):
    """Encoded term vs the real Python function, bit for bit, on concrete thresholds (grid, 1-ulp
    neighbours, decimal ties, random)."""
    import math
    rnd = random.Random(seed)
    n_ok, bad = 0, []
    for fname in FUNCS:
        for measure in kernel.MEASURES:
            for _ in range(per_fn // 10):
                sizes = [rnd.randint(1, 25), rnd.randint(1, 25)]
                if fname != 'get_overlap_threshold':
                    sizes = sizes[:1]
                term = kernel._call(fname, measure, *sizes)
                for _ in range(10):
                    kind = rnd.randint(0, 4)
                    if kind == 0:
                        tv = rnd.randint(1, 1000) / 1000.0
                    elif kind == 1:
                        tv = math.nextafter(rnd.randint(1, 1000) / 1000.0, rnd.choice([0.0, 2.0]))
                    elif kind == 2:
                        tv = rnd.randint(1, 10000) / 10000.0
                    elif kind == 3:
                        tv = (rnd.randint(1, 20000) / 2.0) / 10000.0      # decimal ties
                    else:
                        tv = rnd.uniform(1e-4, 1.0)
                    tv = min(max(tv, 1e-4), 1.0)
                    got = fp.eval_concrete(term.t, [(kernel.T, fp.fpval(tv))])
                    want = float(kernel.call_concrete(fname, measure, tv, *sizes))
                    if got != want:
                        bad.append((fname, measure, sizes, tv, got, want))
                    n_ok += 1
    return n_ok, bad


def run_contract(check, tier, measures=kernel.MEASURES, kinds=None, sizes=None, name='E1-K',
                 cross_every=None, max_obligations=None, always=('pl',)):
    """Prove K of the real kernel functions.  Each `sat` becomes a violation detail that the replay
    turns into the canonical worst-case tables."""
    if check._skip(name):
        return None
    t0 = time.time()
    n_val, bad = validate_translator(check.seed)
    result = dict(obligations=0, discharged=0, solver_s=0.0, queries=0, violations=[],
                  samples=[], inconclusive=None, translator_validated=n_val)
    if bad:
        result['inconclusive'] = 'translator mismatch: %r' % (bad[:3],)
        check.e1(name, result)
        return result
    descs = []
    raw_total = 0
    for m in measures:
        S = sizes or kernel.sizes_for(tier, m)
        d, raw = kernel.contract_obligations(m, S, kinds or ('lb', 'ub', 'alpha', 'pl', 'range',
                                                              'mono'))
        descs += d
        raw_total += raw
    total_merged = len(descs)
    if max_obligations and len(descs) > max_obligations:
        # quick tier: every obligation of the kinds in `always`, a seed-chosen sample of the rest
        rnd = random.Random(check.seed)
        keep = [d for d in descs if d['kind'] in always]
        rest = [d for d in descs if d['kind'] not in always]
        rnd.shuffle(rest)
        descs = keep + rest[:max(0, max_obligations - len(keep))]
    result['obligations_available'] = total_merged
    twins = [dict(kind='twin', measure=m, n=3, c=1.0) for m in measures]
    cross_every = cross_every if cross_every is not None else (20 if tier == 'thorough' else 40)
    res, wall = kernel.run_all(descs + twins, cross_every=cross_every, seed=check.seed)
    unknowns = []
    for r in res:
        d = r['desc']
        result['solver_s'] += r['solver_s']
        result['queries'] += r['queries']
        if d['kind'] == 'twin':
            if r['status'] != 'sat':
                unknowns.append('vacuity twin for %s came back %s (must be sat)' % (
                    d['measure'], r['status']))
            continue
        result['obligations'] += 1
        if r['status'] == 'unsat':
            result['discharged'] += 1
        elif r['status'] == 'sat':
            result['violations'].append(e1_detail(d, r['t']))
        else:
            unknowns.append('%s %s: %s %s' % (d['kind'], dict((k, v) for k, v in d.items()
                                                             if k not in ('kind', 'members')),
                                              r['status'], r.get('why', r.get('fallbacks', ''))))
    if unknowns:
        result['inconclusive'] = '; '.join(unknowns[:5]) + (' (+%d more)' % (len(unknowns) - 5)
                                                           if len(unknowns) > 5 else '')
    result['merged_from'] = raw_total
    result['bounds'] = {'threshold': 'every double in [1e-4, 1]',
                        'sizes': dict((m, sizes or kernel.sizes_for(tier, m)) for m in measures)}
    for d in descs[:2]:
        pre, concl, side = kernel.build(d)
        result['samples'].append({'desc': d, 'smt_conclusion': concl.sexpr()[:600]})
    result['wall_s'] = round(time.time() - t0, 1)
    check.e1(name, result)
    return result


def e1_detail(d, t):
    """Counterexample (measure, t, sizes) -> replayable detail: canonical worst-case pair."""
    kind = d['kind']
    measure = d['measure']
    det = {'harness': 'e1_kernel', 'measure': measure, 't': t, 'kind': kind, 'desc': d,
           'clause': 'kernel-%s' % kind, 'site': 'filter_utils.%s' % {
               'lb': 'get_size_lower_bound', 'ub': 'get_size_upper_bound',
               'alpha': 'get_overlap_threshold', 'pl': 'get_prefix_length',
               'range': 'kernel-range', 'mono': 'get_prefix_length(mono)',
               'tight': 'size-window'}[kind]}
    det['msg'] = ('kernel contract clause %s fails for %s at threshold %r, sizes %s' % (
        kind, measure, t, dict((k, v) for k, v in d.items() if k in ('n', 'm', 'o', 'n2', 'part'))))
    return det
