#!/usr/bin/env python
"""C13 - joins obey transposition, threshold-refinement and operator-partition laws."""
import sys, os
sys.path.insert(0, os.path.dirname(os.path.dirname(os.path.abspath(__file__))))
from checks.common import Check
from checks import stages
from engine import repo
from harness import h_laws


def main():
    ck = Check('C13', repo.functions_encoded(stages.JOIN_FILES))
    ck.assumptions += stages.MODEL_ASSUMPTIONS + [
        'relations between runs on the same symbolic tables; real kernel at a threshold grid (the '
        'arithmetic for all thresholds is C01/C04); no external oracle']
    quick = ck.tier == 'quick'
    ck.bounds = dict(tables='2x2 rows with 0..1 token; 2x1 / 1x2 rows with 1..2 tokens', joins='five set joins',
                     thresholds='grid and ordered pairs from it')
    ck.outside += ['bundled books/person data and large synthetic tables (concrete runs are not this '
                   'technique)', 'edit-distance strings longer than 2 characters']
    for e in stages.SET_JOINS:
        ovl = e == 'overlap_join'
        thr = [1, 2] if ovl else [0.5, 1.0]
        pairs = [(1, 2)] if ovl else [(0.3, 0.5), (0.5, 1.0)]
        ck.e2('transpose-%s' % e, h_laws.make_laws(dict(entry=e, law='transpose', nl=2, nr=2, k=1, kmin=0,
                                                        thresholds=thr, comp_ops=['>=', '='])))
        ck.e2('transpose-%s-2x1' % e, h_laws.make_laws(dict(entry=e, law='transpose', nl=2, nr=1, k=2, kmin=1,
                                                            thresholds=[1] if ovl else [0.5])))
        ck.e2('refine-%s' % e, h_laws.make_laws(dict(entry=e, law='refine', nl=2, nr=2, k=1, kmin=0,
                                                     threshold_pairs=pairs)))
        ck.e2('refine-%s-1x2' % e, h_laws.make_laws(dict(entry=e, law='refine', nl=1, nr=2, k=2, kmin=1,
                                                         threshold_pairs=pairs)))
        if not ovl:
            ck.e2('transpose-%s-1x1-k4' % e, h_laws.make_laws(dict(entry=e, law='transpose', nl=1, nr=1, k=4, kmin=1,
                                                                   thresholds=[0.5, 0.67])))
            ck.e2('refine-%s-1x1-k4' % e, h_laws.make_laws(dict(entry=e, law='refine', nl=1, nr=1, k=4, kmin=1,
                                                                threshold_pairs=[(0.4, 0.5), (0.5, 0.75)])))
        ck.e2('partition-%s' % e, h_laws.make_laws(dict(entry=e, law='partition', nl=2, nr=2, k=1, kmin=0,
                                                        thresholds=thr)))
    # transposition under an arbitrary global token order (per-split function, one wide pair)
    for measure in ('JACCARD', 'COSINE', 'DICE'):
        ck.e2('transpose-core-%s' % measure, h_laws.make_transpose_core(dict(
            measure=measure, nl=1, nr=1, k=5 if not quick else 4, thresholds=[0.3, 0.5, 0.8], comp_ops=['>='])),
            bounds=dict(rows='1x1', k=4, order='arbitrary'))
    # the edit-distance join: same three laws on symbolic strings (real q-gram tokenizer)
    from harness import h_ed
    edb = dict(nl=1, nr=1, lens=[1, 2] if quick else [0, 1, 2], q=[2], padding=[True], props=['C13'])
    ck.e2('ed-transpose', h_ed.make_rel(dict(edb, law='transpose', taus=[1] if quick else [0, 1, 2])))
    ck.e2('ed-refine', h_ed.make_rel(dict(edb, law='refine', taus=[2], tau2=1)))
    ck.e2('ed-partition', h_ed.make_rel(dict(edb, law='partition', taus=[1] if quick else [1, 2])))
    ck.e2('ed-refine-two-letters', h_ed.make_rel(dict(edb, law='refine', lens=[3, 4], alphabet=2, taus=[2], tau2=1)))
    ck.e2('ed-transpose-1x2', h_ed.make_rel(dict(edb, law='transpose', nl=1, nr=2, lens_l=[2], lens_r=[1], taus=[1])))
    ck.finish()


if __name__ == '__main__':
    main()
