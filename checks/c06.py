#!/usr/bin/env python
"""C06 - filter_candset is row-wise filter_pair; OverlapFilter is exact."""
import sys, os
sys.path.insert(0, os.path.dirname(os.path.dirname(os.path.abspath(__file__))))
from checks.common import Check
from checks import stages
from engine import repo
from harness import h_cand, h_core, h_join, h_pair


def main():
    ck = Check('C06', repo.functions_encoded(['filter/filter.py', 'filter/overlap_filter.py',
                                              'index/inverted_index.py', 'utils/generic_helper.py'] +
                                             stages.FILTER_FILES))
    ck.assumptions += stages.MODEL_ASSUMPTIONS + [
        'filter_candset is decided for every filter behaviour at once: filter_pair of a stub Filter '
        'subclass returns an arbitrary symbolic boolean per referenced value pair']
    quick = ck.tier == 'quick'
    P = ['C06', 'CRASH', 'C12']
    ck.bounds = dict(candset='1..3 rows (4 thorough) over 2x2 tables, duplicate index labels included',
                     overlap='cells <= 3 tokens, overlap_size 1..3, operators >=,>,=')
    ck.e2('candset-any-filter', h_cand.make(dict(mode='candset', nl=2, nr=2, ncand=[1, 2, 3] if quick else [3, 4], 
                                                 missing='sym', allow_missing=[False, True], n_jobs=[1, 2, 3],
                                                 extra_col=[False, True], cand_index=[None, [7, 7, 3, 3]],
                                                 props=P)))
    for flt in stages.FILTERS:
        ck.e2('candset-%s' % flt, h_cand.make(dict(
            mode='candset', filter=flt, measure='JACCARD' if flt != 'OverlapFilter' else 'OVERLAP',
            thresholds=[0.5] if flt != 'OverlapFilter' else [1], nl=2, nr=2, ncand=[2, 3], k=1, kmin=0,
            missing='sym', allow_missing=[False, True], n_jobs=[1, 2], extra_col=[False],
            cand_index=[None, [7, 7, 3]], props=P)))
    ops = ['>=', '>', '=']
    ck.e2('overlap-pair', h_pair.make(dict(filter='OverlapFilter', measure='OVERLAP', k=3, kmin=0,
                                           thresholds=[1, 2, 3], comp_ops=ops, nonempty='sym', missing='sym',
                                           allow_missing=[False, True], props=['C06', 'C08', 'CRASH'])))
    ck.e2('overlap-tables-core', h_core.make(dict(entry='filter_split', filter='OverlapFilter', measure='OVERLAP',
                                                  nl=1 if quick else 2, nr=2, k=3 if quick else 2, kmin=0, thresholds=[1, 2, 3], comp_ops=ops,
                                                  out_sim_score=[True, False], props=['C06', 'C01', 'C02', 'CRASH'])))
    ck.e2('overlap-tables-api', h_join.make(stages.filter_cfg(
        'OverlapFilter', nl=2, nr=2, k=1, kmin=0, comp_ops=ops, thresholds=[1], out_sim_score=[True, False],
        n_jobs=[1, 2], missing='sym', allow_missing=[False, True], props=['C01', 'C02', 'C06', 'C08', 'CRASH'],
        validate_every=50)))
    # a left table keyed by its filter attribute (key column == filter column)
    for f in ('OverlapFilter', 'SizeFilter'):
        cfg = stages.filter_cfg(f, nl=2, nr=2, k=1, kmin=0, comp_ops=['>='], out_sim_score=[True] if f == 'OverlapFilter' else [False],
                                n_jobs=[1], props=['C01', 'C02', 'C04', 'C06', 'C11', 'CRASH'], l_key_is_attr=True,
                                validate_every=4)
        cfg['thresholds'] = [1] if f == 'OverlapFilter' else [0.5]
        ck.e2('keyed-by-attr-%s' % f, h_join.make(cfg))
    ck.e2('keyed-by-attr-overlap_join', h_join.make(stages.join_cfg(
        'overlap_join', nl=2, nr=2, k=1, kmin=0, comp_ops=['>='], n_jobs=[1], l_key_is_attr=True,
        props=['C01', 'C02', 'C06', 'C11', 'CRASH'], validate_every=4)))
    ck.finish()


if __name__ == '__main__':
    main()
