#!/usr/bin/env python
"""C07 - a join equals filter_tables followed by apply_matcher."""
import sys, os
sys.path.insert(0, os.path.dirname(os.path.dirname(os.path.abspath(__file__))))
from checks.common import Check
from checks import stages
from engine import repo
from harness import h_laws


def main():
    ck = Check('C07', repo.functions_encoded(stages.JOIN_FILES + stages.FILTER_FILES +
                                             ['matcher/apply_matcher.py']))
    ck.assumptions += stages.MODEL_ASSUMPTIONS + [
        'integration check over the real kernel at a threshold grid: the arithmetic for all thresholds '
        'is the subject of C01/C04 (kernel contract proven there); py_stringmatching raw score functions '
        'run for real on symbolic token lists']
    quick = ck.tier == 'quick'
    ck.bounds = dict(tables='2x2 rows with 0..1 token and 1x2 / 2x1 rows with 1..2 tokens',
                     first_stage=['SizeFilter', 'PrefixFilter', 'PositionFilter', 'OverlapFilter'],
                     thresholds='grid', n_jobs='1, 2 (both stages)')
    ck.outside += ['edit-distance strings longer than 2 characters', 'tables beyond the bounds']
    joins = ['jaccard_join', 'cosine_join', 'dice_join', 'overlap_join'] if quick else \
        ['jaccard_join', 'cosine_join', 'dice_join', 'overlap_coefficient_join', 'overlap_join']
    firsts = ['SizeFilter', 'PrefixFilter', 'PositionFilter', 'OverlapFilter']
    for e in joins:
        thr = [1, 2] if e == 'overlap_join' else [0.5, 1.0]
        for f in firsts:
            if e in ('overlap_coefficient_join', 'overlap_join') and f != 'OverlapFilter':
                continue
            ck.e2('%s-%s-2x2' % (e, f), h_laws.make_pipeline(dict(
                entry=e, first=f, nl=2, nr=2, k=1, kmin=0, thresholds=thr, comp_ops=['>=', '>', '='],
                allow_empty=[True, False], n_jobs=[1, 2])))
            ck.e2('%s-%s-1x2' % (e, f), h_laws.make_pipeline(dict(
                entry=e, first=f, nl=1, nr=2, k=2, kmin=1, thresholds=thr if e == 'overlap_join' else [0.5, 0.67],
                comp_ops=['>='], n_jobs=[1])))
    for e in ('jaccard_join', 'cosine_join', 'dice_join'):
        ck.e2('%s-PositionFilter-1x1-k4' % e, h_laws.make_pipeline(dict(
            entry=e, first='PositionFilter', nl=1, nr=1, k=4, kmin=1, thresholds=[0.5, 0.67], comp_ops=['>='])))
    # edit distance: the join's result is contained in the pipeline's and they agree on pairs sharing a q-gram
    from harness import h_ed
    ck.e2('ed-pipeline', h_ed.make_rel(dict(law='pipeline', nl=1, nr=1, lens=[1, 2] if quick else [0, 1, 2],
                                            q=[2], padding=[True], taus=[1] if quick else [0, 1, 2], props=['C07'])))
    ck.e2('ed-pipeline-1x2', h_ed.make_rel(dict(law='pipeline', nl=1, nr=2, lens_l=[2], lens_r=[1], q=[2],
                                                padding=[True], taus=[1], props=['C07'])))
    ck.finish()


if __name__ == '__main__':
    main()
