#!/usr/bin/env python
"""C14 - filters prune what their technique promises to prune."""
import sys, os, time
sys.path.insert(0, os.path.dirname(os.path.dirname(os.path.abspath(__file__))))
from checks.common import Check
from checks import stages, e1_stage
from engine import repo
from engine.numkernel import kernel
from harness import h_core, h_pair
import z3


def tightness_stage(ck, tier):
    if ck._skip('E1-tightness'):
        return
    t0 = time.time()
    n_val, bad = e1_stage.validate_translator(ck.seed, per_fn=60)
    result = dict(obligations=0, discharged=0, solver_s=0.0, queries=0, violations=[], samples=[],
                  inconclusive=None, translator_validated=n_val)
    if bad:
        result['inconclusive'] = 'translator mismatch %r' % (bad[:2],)
        ck.e1('E1-tightness', result)
        return
    descs = []
    for m in kernel.MEASURES:
        S = [1, 2, 3, 4, 5, 7, 9, 25] if tier == 'quick' else kernel.sizes_for('thorough', m)
        descs += kernel.tightness_obligations(m, S)
    if tier == 'quick':
        import random
        random.Random(ck.seed).shuffle(descs)
        descs = descs[:80]
    res, wall = kernel.run_all(descs, seed=ck.seed)
    unk = []
    for r in res:
        d = r['desc']
        result['obligations'] += 1
        result['solver_s'] += r['solver_s']
        result['queries'] += r['queries']
        if r['status'] == 'unsat':
            result['discharged'] += 1
        elif r['status'] == 'sat':
            result['violations'].append(e1_stage.e1_detail(d, r['t']))
        else:
            unk.append('%s %r' % (r['status'], d))
    if unk:
        result['inconclusive'] = '; '.join(unk[:4])
    result['samples'] = [{'desc': d} for d in descs[:2]]
    result['bounds'] = {'threshold': 'every double in [best+1e-4+1e-9, 1]', 'sizes': 'see stage'}
    ck.e1('E1-tightness', result)


def edit_distance_size_stage(ck):
    """Integers, no bound: SizeFilter's window for EDIT_DISTANCE excludes m iff |n-m| > tau."""
    fu = repo.mod('filter.filter_utils')
    n, m, tau = z3.Int('n'), z3.Int('m'), z3.Int('tau')
    from engine.pathsym.core import SymInt
    lb = fu.get_size_lower_bound(SymInt(n), 'EDIT_DISTANCE', SymInt(tau))
    ub = fu.get_size_upper_bound(SymInt(n), 'EDIT_DISTANCE', SymInt(tau))
    inside = z3.And(lb.t <= m, m <= ub.t)
    absdiff = z3.If(n >= m, n - m, m - n)
    s = z3.Solver()
    s.add(n >= 0, m >= 0, tau >= 0, z3.Not(inside == (absdiff <= tau)))
    t0 = time.time()
    r = s.check()
    res = dict(obligations=1, discharged=1 if r == z3.unsat else 0, solver_s=time.time() - t0, queries=1,
               violations=[], samples=[{'obligation': 'forall n,m,tau >= 0: lb <= m <= ub  <=>  |n-m| <= tau',
                                        'lb': str(lb.t), 'ub': str(ub.t)}],
               bounds={'n, m, tau': 'all non-negative integers'})
    if r == z3.sat:
        mdl = s.model()
        res['violations'].append({'harness': 'e1_edsize', 'clause': 'ed-size-window', 'site': 'filter_utils(EDIT_DISTANCE)',
                                  'n': mdl[n].as_long(), 'm': mdl[m].as_long(), 'tau': mdl[tau].as_long(),
                                  'msg': 'EDIT_DISTANCE size window wrong for n=%s m=%s tau=%s' % (mdl[n], mdl[m], mdl[tau])})
    elif r != z3.unsat:
        res['inconclusive'] = 'z3 unknown'
    ck.e1('E1-ED-size-window', res)


def main():
    ck = Check('C14', repo.functions_encoded(stages.FILTER_FILES))
    ck.assumptions += stages.MODEL_ASSUMPTIONS + stages.CORE_ASSUMPTIONS
    quick = ck.tier == 'quick'
    P = ['C14', 'CRASH']
    ck.bounds = dict(tightness='all doubles t x size pairs of the size set', tables='2x2 rows, <= 3 tokens',
                     no_common_token='unconstrained kernel stubs, symbolic threshold (pair level) / real '
                                     'kernel threshold grid (table level)')
    ck.outside += ['the gap between 1e-4 and 1e-4+1e-9 (guard band so that a 1-ulp borderline is never '
                   'reported)', 'rows beyond the bounds']
    tightness_stage(ck, ck.tier)
    edit_distance_size_stage(ck)
    kp = 3
    ck.e2('size-counts-alone', h_pair.make(dict(filter='SizeFilter', measure='JACCARD', k=kp, kmin=0,
                                                kernel='real', thresholds=[0.3, 0.5, 0.8], twin=True, props=P)))
    for flt in ('PrefixFilter', 'PositionFilter'):
        for measure in ('JACCARD', 'COSINE', 'DICE'):
            ck.e2('pair-free-%s-%s' % (flt, measure), h_pair.make(dict(
                filter=flt, measure=measure, k=kp, kmin=0, kernel='free', props=P)),
                bounds=dict(kernel='unconstrained', k=kp))
        ck.e2('pair-%s-OVERLAP' % flt, h_pair.make(dict(
            filter=flt, measure='OVERLAP', k=kp, kmin=0, kernel='real',
            thresholds=[lambda c: c.int_var('thr', 1, 4)], props=P)))
    ck.e2('pair-OverlapFilter', h_pair.make(dict(filter='OverlapFilter', measure='OVERLAP', k=kp,
                                                 thresholds=[1, 2], comp_ops=['>=', '>', '='],
                                                 nonempty='sym', props=P)))
    thr = [0.5, 0.8]
    for flt in ('SizeFilter', 'PrefixFilter', 'PositionFilter', 'OverlapFilter'):
        cfg = dict(entry='filter_split', filter=flt, measure='JACCARD' if flt != 'OverlapFilter' else 'OVERLAP',
                   nl=2 if not quick else 1, nr=2, k=3 if quick else 2, kmin=0, thresholds=thr if flt != 'OverlapFilter' else [1, 2],
                   comp_ops=['>='], allow_empty=[True, False], props=P)
        ck.e2('tables-%s' % flt, h_core.make(cfg))
    for measure in (('JACCARD',) if quick else ('JACCARD', 'COSINE', 'DICE')):
        ck.e2('subset-%s' % measure, h_core.make_subset(dict(
            measure=measure, nl=2 if not quick else 1, nr=2, k=3 if quick else 2, kmin=0,
            thresholds=[0.3, 0.5, 0.8], allow_empty=[True, False])))
    ck.e2('subset-stub', h_core.make_subset(dict(measure='JACCARD', nl=1, nr=2, k=2, kmin=0, kernel='contract',
                                                 allow_empty=[True])))
    # EDIT_DISTANCE: SizeFilter decides on the q-gram counts alone; PositionFilter keeps a subset of SizeFilter
    from harness import h_ed
    ck.e2('ed-size-pair', h_ed.make(dict(entry='filter_pair', filter='SizeFilter', lens=[0, 1, 2, 3], q=[2],
                                         padding=[True, False], taus=[0, 1, 2], props=P)))
    ck.e2('ed-size-tables', h_ed.make(dict(entry='filter_split', filter='SizeFilter', nl=1, nr=1, lens=[1, 2, 3],
                                           alphabet=2, q=[2], padding=[True, False], taus=[0, 1], props=P)))
    ck.e2('ed-position-subset', h_ed.make(dict(entry='filter_split', filter='PositionFilter', nl=1, nr=1,
                                               lens_l=[1], lens_r=[4], q=[2], padding=[True], taus=[2],
                                               size_subset=True, props=P)), expect_nontrivial=False)
    ck.finish()


if __name__ == '__main__':
    main()
