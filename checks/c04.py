#!/usr/bin/env python
"""C04 - filters never dismiss a pair that satisfies the threshold."""
import sys, os
sys.path.insert(0, os.path.dirname(os.path.dirname(os.path.abspath(__file__))))
from checks.common import Check
from checks import stages, e1_stage
from engine import repo
from harness import h_core, h_pair

SYM_INT_THR = [lambda c: c.int_var('thr', 1, 5)]


def main():
    ck = Check('C04', repo.functions_encoded(stages.FILTER_FILES))
    ck.assumptions += stages.MODEL_ASSUMPTIONS + stages.CORE_ASSUMPTIONS + [
        'pair-level harnesses with a symbolic threshold assume only the kernel contract K (+K-mono for '
        'the suffix filter) about the four filter_utils functions; K is proven of the real functions '
        'by the E1 stage of this check for the sizes in the size set']
    quick = ck.tier == 'quick'
    P = ['C04', 'CRASH']
    kp = 3 if quick else 4
    ck.bounds = dict(E1='all doubles t in [1e-4,1] x sizes in the size set (sampled per seed in the quick tier)',
                     pair='filter_pair on two cells of 1..%d tokens, symbolic threshold, all token arrangements' % kp,
                     tables='_filter_tables_split 1x2 rows of 1..3 tokens, arbitrary global order, thresholds grid')
    ck.outside += ['edit-distance strings longer than 3 characters', 'rows beyond the bounds',
                   'structural sufficiency of K for set sizes above the E2 bound']
    # quick tier: the sample emphasises the size-window and required-overlap clauses (C01's quick
    # sample takes every prefix-length clause); the thorough tier proves all of K
    e1_stage.run_contract(ck, ck.tier, max_obligations=100 if quick else None,
                          always=('mono',), kinds=('lb', 'ub', 'alpha', 'mono') if quick else None)
    for flt in ('SizeFilter', 'PrefixFilter', 'PositionFilter', 'SuffixFilter'):
        for measure in ('JACCARD', 'COSINE', 'DICE'):
            ck.e2('pair-%s-%s' % (flt, measure), h_pair.make(dict(
                filter=flt, measure=measure, k=kp, kmin=1, kernel='contract', mono=(flt == 'SuffixFilter'),
                allow_empty=[True], props=P)), bounds=dict(k=kp, threshold='symbolic double in (0,1]'))
        ck.e2('pair-%s-OVERLAP' % flt, h_pair.make(dict(
            filter=flt, measure='OVERLAP', k=kp, kmin=1, kernel='real', thresholds=SYM_INT_THR,
            allow_empty=[True], props=P)), bounds=dict(k=kp, threshold='symbolic int 1..5, real kernel'))
        ck.e2('pair-%s-real' % flt, h_pair.make(dict(
            filter=flt, measure='JACCARD', k=kp, kmin=0, kernel='real', thresholds=[0.3, 0.5, 0.8, 1.0],
            props=P)), bounds=dict(k=kp, thresholds=[0.3, 0.5, 0.8, 1.0], kernel='real'))
    # unequal sizes (4 against 7 tokens), real kernel: positional / suffix bounds with asymmetric records
    for flt, measure, thrs in (('PrefixFilter', 'JACCARD', [0.5, 0.6]), ('PositionFilter', 'JACCARD', [0.5, 0.6]),
                               ('SuffixFilter', 'COSINE', [0.7])) + ((('SizeFilter', 'DICE', [0.7]),) if not quick else ()):
        ck.e2('pair-%s-4x7' % flt, h_pair.make(dict(
            filter=flt, measure=measure, kl=4, kr=7, kminl=4, kminr=7 if quick else 6, kernel='real',
            thresholds=thrs, allow_empty=[True], props=P)), stop_on_violation=False,
            bounds=dict(sizes='4 vs 7 tokens', thresholds=thrs))
        if quick and flt != 'SuffixFilter':
            continue
        ck.e2('pair-%s-7x4' % flt, h_pair.make(dict(
            filter=flt, measure=measure, kl=7, kr=4, kminl=7, kminr=4, kernel='real',
            thresholds=thrs, allow_empty=[True], props=P)), stop_on_violation=False,
            bounds=dict(sizes='7 vs 4 tokens', thresholds=thrs))
    ck.e2('pair-OverlapFilter', h_pair.make(dict(filter='OverlapFilter', measure='OVERLAP', k=kp,
                                                 thresholds=[1, 2, 3], comp_ops=['>='], props=P + ['C06'])))
    thr = [0.5, 0.75] if quick else [0.3, 0.5, 0.75, 0.8, 1.0]
    for flt in ('SizeFilter', 'PrefixFilter', 'PositionFilter', 'SuffixFilter'):
        for measure in (('JACCARD',) if quick else ('JACCARD', 'COSINE', 'DICE')):
            ck.e2('tables-%s-%s' % (flt, measure), h_core.make(dict(
                entry='filter_split', filter=flt, measure=measure, nl=1, nr=2, k=3,
                thresholds=thr, props=P)), stop_on_violation=False,
                bounds=dict(rows='1x2', k=3, thresholds=thr))
        if flt == 'SuffixFilter':
            # the recorded known finding needs a (4,3)-token pair: one wide pair (1x2 in the thorough tier)
            ck.e2('tables-SuffixFilter-JACCARD-k4', h_core.make(dict(
                entry='filter_split', filter=flt, measure='JACCARD', nl=1, nr=1 if quick else 2, k=4,
                thresholds=[0.5, 0.75], props=P)), stop_on_violation=False,
                bounds=dict(rows='1x1' if quick else '1x2', k=4))
        ck.e2('tables-%s-OVERLAP' % flt, h_core.make(dict(
            entry='filter_split', filter=flt, measure='OVERLAP', nl=1, nr=2, k=3, thresholds=[1, 2],
            props=P)), stop_on_violation=False)
    for flt in ('SizeFilter', 'PrefixFilter', 'PositionFilter'):
        ck.e2('tables-%s-1x1-k5' % flt, h_core.make(dict(
            entry='filter_split', filter=flt, measure='JACCARD', nl=1, nr=1, k=5, thresholds=[0.3, 0.5, 0.8],
            props=P)), bounds=dict(rows='1x1', k=5))
    ck.e2('tables-OverlapFilter', h_core.make(dict(entry='filter_split', filter='OverlapFilter',
                                                   measure='OVERLAP', nl=1, nr=2, k=3, thresholds=[1, 2],
                                                   comp_ops=['>='], props=P)))
    # EDIT_DISTANCE measure: real q-gram tokenizer on symbolic strings, real integer kernel
    from harness import h_ed
    for flt in ('SizeFilter', 'PrefixFilter', 'PositionFilter', 'SuffixFilter'):
        ck.e2('ed-pair-%s' % flt, h_ed.make(dict(entry='filter_pair', filter=flt, lens=[1, 2] if quick else [1, 2, 3],
                                                 q=[2], padding=[True], taus=[1], props=P)),
              bounds=dict(strings='len <= %d' % (2 if quick else 3), q=2) if quick else dict(strings='len <= 3', q=2, tau=1))
        if not quick:
            ck.e2('ed-pair-tau2-%s' % flt, h_ed.make(dict(entry='filter_pair', filter=flt, lens=[1, 2], q=[2],
                                                          padding=[True], taus=[2], props=P)),
                  bounds=dict(strings='len <= 2', q=2, tau=2))
        ck.e2('ed-pair-two-letters-%s' % flt, h_ed.make(dict(entry='filter_pair', filter=flt, lens_l=[3, 4],
                                                             lens_r=[4, 5] if not quick else [4], alphabet=2, q=[2],
                                                             padding=[True], taus=[1, 2], props=P)),
              bounds=dict(strings='len 3..5 over two symbolic letters', q=2))
        ck.e2('ed-tables-%s' % flt, h_ed.make(dict(entry='filter_split', filter=flt, nl=1, nr=2, lens_l=[2],
                                                   lens_r=[1] if quick else [1, 2], q=[2], padding=[True], taus=[1],
                                                   props=P)), bounds=dict(rows='1x2', q=2))
    ck.finish()


if __name__ == '__main__':
    main()
