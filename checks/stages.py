"""Reusable stage definitions (harness configurations) shared by the property checks."""
from harness import h_core, h_join

SET_JOINS = ['jaccard_join', 'cosine_join', 'dice_join', 'overlap_coefficient_join', 'overlap_join']
FILTERS = ['SizeFilter', 'PrefixFilter', 'PositionFilter', 'SuffixFilter', 'OverlapFilter']
JOIN_FILES = ['join/set_sim_join.py', 'join/jaccard_join_py.py', 'join/cosine_join_py.py',
              'join/dice_join_py.py', 'join/overlap_coefficient_join_py.py',
              'join/overlap_join_py.py', 'filter/position_filter.py', 'filter/overlap_filter.py',
              'filter/filter_utils.py', 'index/position_index.py', 'index/inverted_index.py',
              'utils/token_ordering.py', 'utils/generic_helper.py',
              'utils/missing_value_handler.py', 'utils/validation.py', 'utils/simfunctions.py']
FILTER_FILES = ['filter/filter.py', 'filter/size_filter.py', 'filter/prefix_filter.py',
                'filter/position_filter.py', 'filter/suffix_filter.py', 'filter/overlap_filter.py',
                'filter/filter_utils.py', 'index/size_index.py', 'index/prefix_index.py',
                'index/position_index.py', 'index/inverted_index.py', 'utils/token_ordering.py',
                'utils/generic_helper.py', 'utils/missing_value_handler.py']

MODEL_ASSUMPTIONS = [
    'pandas is replaced by the model engine/pathsym/pdmodel.py (API subset catalogued there); '
    'guarded by replay of every counterexample on real pandas and by trace validation of sampled '
    'paths against the real stack',
    'joblib.Parallel/delayed replaced by a sequential stub (results in job order, no pickling, no '
    'processes); pyprind.ProgBar replaced by a no-op',
    'tokenizer = abstract tokenizer AbsTok (cell -> token list, de-duplicated iff return_set); stands '
    'for any py_stringmatching tokenizer; replays use the real WhitespaceTokenizer',
    'symmetry reduction: a cell lists its tokens in increasing order of their integer codes',
    'py_stringsimjoin.__use_cython__ is set to False at run time; the .pyx twins are outside the claim',
]
CORE_ASSUMPTIONS = [
    'H-CORE runs the per-split functions on lists of tuples under an arbitrary global token order '
    '(identity-rank stub for gen_token_ordering_for_tables); that the real ordering function yields '
    'an injective rank map covering every token is obligation T1 (checked in C01)',
]


def thresholds_for(measure):
    if measure == 'OVERLAP':
        return [1, 2]
    if measure == 'OVERLAP_COEFFICIENT':
        return [0.5, 1.0]
    return [0.5, 1.0]


def join_cfg(entry, **kw):
    measure = h_join.scenario.JOIN_MEASURE[entry]
    cfg = dict(entry=entry, thresholds=thresholds_for(measure), kind='join')
    cfg.update(kw)
    return cfg


def filter_cfg(flt, measure='JACCARD', **kw):
    cfg = dict(entry='filter_tables', filter=flt, measure='OVERLAP' if flt == 'OverlapFilter' else measure,
               kind='filter', thresholds=thresholds_for('OVERLAP' if flt == 'OverlapFilter' else measure))
    cfg.update(kw)
    return cfg
