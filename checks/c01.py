#!/usr/bin/env python
"""C01 - set-similarity joins return every qualifying pair."""
import sys, os
sys.path.insert(0, os.path.dirname(os.path.dirname(os.path.abspath(__file__))))
from checks.common import Check
from checks import e1_stage
from engine import repo
from harness import h_core, h_join

FILES = ['join/set_sim_join.py', 'join/jaccard_join_py.py', 'join/cosine_join_py.py',
         'join/dice_join_py.py', 'join/overlap_coefficient_join_py.py', 'join/overlap_join_py.py',
         'filter/position_filter.py', 'filter/overlap_filter.py', 'filter/filter_utils.py',
         'index/position_index.py', 'index/inverted_index.py', 'utils/token_ordering.py',
         'utils/generic_helper.py']


def main():
    ck = Check('C01', repo.functions_encoded(FILES))
    from checks import stages
    ck.assumptions += stages.MODEL_ASSUMPTIONS + stages.CORE_ASSUMPTIONS
    quick = ck.tier == 'quick'
    P = ['C01', 'CRASH']
    # E1: the arithmetic half - kernel contract K for every double threshold
    e1_stage.run_contract(ck, ck.tier, max_obligations=200 if quick else None)
    # E2: structural half on the real set_sim_join, arbitrary token order, real kernel
    thr = [0.5, 0.8] if quick else [0.3, 0.5, 0.75, 0.8, 1.0]
    for measure in ('JACCARD', 'COSINE', 'DICE'):
        ck.e2('core-%s-1x2' % measure, h_core.make(dict(
            entry='set_sim_join', measure=measure, nl=1, nr=2, k=3, thresholds=thr,
            comp_ops=['>=', '>', '='], props=P)), bounds=dict(rows='1x2', k=3, thresholds=thr))
    # one wide pair: asymmetric sizes up to 5 tokens (positional bounds with unequal sizes)
    for measure in ('JACCARD', 'COSINE', 'DICE'):
        ck.e2('core-%s-1x1-k5' % measure, h_core.make(dict(
            entry='set_sim_join', measure=measure, nl=1, nr=1, k=5, thresholds=[0.3, 0.5, 0.8],
            comp_ops=['>='], props=P)), bounds=dict(rows='1x1', k=5, thresholds=[0.3, 0.5, 0.8]))
    ck.e2('core-contract-JACCARD-1x1-k4', h_core.make(dict(
        entry='set_sim_join', measure='JACCARD', nl=1, nr=1, k=4, kernel='contract', comp_ops=['>='], props=P)),
        bounds=dict(rows='1x1', k=4, threshold='symbolic, kernel under K'))
    if not quick:
        from harness import h_verify
        ck.e2('verify-step', h_verify.make(dict(measures=['JACCARD', 'COSINE', 'DICE', 'OVERLAP_COEFFICIENT'],
                                                N=48, comp_ops=['>=', '>', '='], props=P)),
              bounds=dict(sizes='n,m <= 48', threshold='every double in [1e-4, 1]'), chunk_paths=1, split=2)
        for measure in ('JACCARD', 'COSINE', 'DICE'):
            ck.e2('core-%s-2x2' % measure, h_core.make(dict(
                entry='set_sim_join', measure=measure, nl=2, nr=2, k=2, thresholds=thr,
                comp_ops=['>=', '>', '='], props=P)), bounds=dict(rows='2x2', k=2, thresholds=thr))
            ck.e2('core-%s-1x3' % measure, h_core.make(dict(
                entry='set_sim_join', measure=measure, nl=1, nr=3, k=3, thresholds=[0.5, 0.8],
                comp_ops=['>='], props=P)), bounds=dict(rows='1x3', k=3))
            if measure == 'JACCARD':
                ck.e2('core-contract-%s' % measure, h_core.make(dict(
                    entry='set_sim_join', measure=measure, nl=1, nr=2, k=3, kernel='contract',
                    comp_ops=['>='], props=P)), bounds=dict(rows='1x2', k=3, threshold='symbolic, kernel under K'))
            else:
                ck.e2('core-contract-%s-1x1-k4' % measure, h_core.make(dict(
                    entry='set_sim_join', measure=measure, nl=1, nr=1, k=4, kernel='contract',
                    comp_ops=['>=', '>', '='], props=P)), bounds=dict(rows='1x1', k=4, threshold='symbolic, kernel under K'))
    else:
        ck.e2('core-contract-JACCARD', h_core.make(dict(
            entry='set_sim_join', measure='JACCARD', nl=1, nr=2, k=2, kernel='contract',
            comp_ops=['>=', '>', '='], props=P)), bounds=dict(rows='1x2', k=2, threshold='symbolic, kernel under K'))
    ck.e2('core-OC-1x2', h_core.make(dict(entry='oc_split', measure='OVERLAP_COEFFICIENT', nl=1, nr=2,
                                          k=3, sym_threshold=True, comp_ops=['>=', '>', '='],
                                          props=P)), bounds=dict(rows='1x2', k=3, threshold='symbolic double in (0,1] (no kernel involved)'))
    ck.e2('core-overlap-1x2', h_core.make(dict(entry='filter_split', filter='OverlapFilter',
                                               measure='OVERLAP', nl=1, nr=2, k=3, thresholds=[1, 2, 3],
                                               comp_ops=['>=', '>', '='], props=P)),
          bounds=dict(rows='1x2', k=3))
    # T1: the real token ordering (discharges the arbitrary-order stub), then the public joins with the
    # real ordering over the pandas model
    ck.e2('T1-token-ordering', h_core.make_t1(dict(nl=2, nr=2, k=2, kmin=0) if not quick else
                                              dict(nl=2, nr=1, k=2, kmin=0)), bounds=dict(rows='2x2', k=2))
    from checks import stages as st
    for e in st.SET_JOINS:
        ck.e2('api-%s' % e, h_join.make(st.join_cfg(
            e, nl=2, nr=2, k=1, kmin=0, missing='sym' if not quick else False, allow_missing=[False],
            comp_ops=['>=', '>', '='] if not quick else ['>=', '='],
            n_jobs=[1, 2], tok_return_set=[True, False] if not quick else [True], bag=True, props=P,
            validate_every=60)))
        ck.e2('api-%s-k2' % e, h_join.make(st.join_cfg(
            e, nl=1, nr=2, k=2, kmin=1, comp_ops=['>='], thresholds=[1, 2] if e == 'overlap_join' else [0.5, 0.67],
            n_jobs=[1], props=P, validate_every=60, out_attrs=[(None, None), (['x'], ['y'])],
            extra_none=[True])))
    ck.finish()


if __name__ == '__main__':
    main()
