#!/usr/bin/env python
"""C11 - output tables have the documented columns and faithfully project source rows."""
import sys, os, itertools
sys.path.insert(0, os.path.dirname(os.path.dirname(os.path.abspath(__file__))))
from checks.common import Check
from checks import stages
from engine import repo
from harness import h_join

COLS = ['id', 'attr', 'x', 'y']


def main():
    ck = Check('C11', repo.functions_encoded(['utils/generic_helper.py', 'utils/missing_value_handler.py',
                                              'join/set_sim_join.py'] + stages.FILTER_FILES))
    ck.assumptions += stages.MODEL_ASSUMPTIONS
    quick = ck.tier == 'quick'
    P = ['C11', 'CRASH']
    orders = [None, (['y', 'attr', 'id', 'x'], ['x', 'y', 'attr', 'id']),
              (['attr', 'x', 'id', 'y'], ['id', 'y', 'x', 'attr'])]
    if not quick:
        perms = list(itertools.permutations(COLS))
        orders = [None] + [(list(perms[i]), list(perms[-1 - i])) for i in range(1, 24, 6)]
    lists = [None, [], ['id'], ['attr'], ['x', 'y'], ['y', 'x', 'y'], ['id', 'x', 'attr', 'x'],
             ['attr', 'id', 'attr']]
    if quick:
        outs = [(None, None), ([], None), (['x', 'y'], ['attr']), (['y', 'x', 'y'], ['id', 'x', 'attr', 'x']),
                (['attr', 'id', 'attr'], ['y']), (None, ['id']), (['id'], [])]
    else:
        outs = [(a, b) for a in lists for b in lists][::3]
    ck.bounds = dict(rows='2x2', columns='4 per table in %d orderings' % len(orders),
                     out_attr_choices=len(outs), branches='normal, empty-set, missing-value rows')
    ck.outside += ['extra columns of non-object dtype (values are opaque markers in the model)']
    dims = dict(nl=2, nr=2, k=1, kmin=0, missing='sym', allow_missing=[True], allow_empty=[True],
                out_sim_score=[True, False], out_attrs=outs, col_orders=orders, props=P, r_key='rid',
                extra_none=[True],
                validate_every=80, n_jobs=[1, 2] if not quick else [1])
    for e in stages.SET_JOINS:
        cfg = stages.join_cfg(e, **dims)
        cfg['thresholds'] = [1] if e == 'overlap_join' else [0.5]
        ck.e2('api-%s' % e, h_join.make(cfg), chunk_paths=500)
    for f in stages.FILTERS:
        cfg = stages.filter_cfg(f, **dims)
        cfg['thresholds'] = [1] if f == 'OverlapFilter' else [0.5]
        if f != 'OverlapFilter':
            cfg['out_sim_score'] = [False]
        ck.e2('api-%s' % f, h_join.make(cfg), chunk_paths=500)
    # output prefixes that attribute names already start with ('x' + 'x', 'y' + 'y')
    for e in ('jaccard_join', 'overlap_join'):
        cfg = stages.join_cfg(e, nl=2, nr=2, k=1, kmin=0, out_sim_score=[True], props=P, validate_every=80,
                              out_attrs=[(['x', 'y'], ['y', 'x']), (None, ['y'])], l_out_prefix='x', r_out_prefix='y')
        cfg['thresholds'] = [1] if e == 'overlap_join' else [0.5]
        ck.e2('prefix-collision-%s' % e, h_join.make(cfg))
    ck.e2('prefix-collision-SizeFilter', h_join.make(stages.filter_cfg(
        'SizeFilter', nl=2, nr=2, k=1, kmin=0, out_sim_score=[False], props=P, validate_every=80,
        out_attrs=[(['x', 'y'], ['y', 'x'])], l_out_prefix='x', r_out_prefix='y', thresholds=[0.5])))
    ck.finish()


if __name__ == '__main__':
    main()
