#!/usr/bin/env python
"""C10 - results depend only on the rows and parameters, not on schedule or presentation."""
import sys, os
sys.path.insert(0, os.path.dirname(os.path.dirname(os.path.abspath(__file__))))
from checks.common import Check
from checks import stages
from engine import repo
from engine.numkernel import split
from harness import h_join


def split_stage(ck, K, B):
    if ck._skip('E1-split_table'):
        return
    res, wall = split.run(K, B)
    out = dict(obligations=len(res), discharged=sum(1 for r in res if r['status'] == 'unsat'),
               solver_s=sum(r['solver_s'] for r in res), queries=sum(r['queries'] for r in res),
               violations=[], samples=[{'k': r['k'], 'obligation': r['name'], 'status': r['status']}
                                       for r in res[:3]],
               bounds={'len(table)': 'every integer in [0, 2^%d]' % B, 'num_splits': '1..%d' % K})
    unk = [r for r in res if r['status'] not in ('sat', 'unsat')]
    if unk:
        out['inconclusive'] = 'split_table obligations undecided: %r' % [(r['k'], r['name'], r['status']) for r in unk[:4]]
    for r in res:
        if r['status'] == 'sat' and not r['name'].startswith('encoding'):
            out['violations'].append({'harness': 'e1_split', 'k': r['k'], 'n': int(r['n']),
                                      'clause': 'split-partition', 'site': 'generic_helper.split_table',
                                      'msg': 'split_table(len=%d, num_splits=%d): %s fails' % (
                                          int(r['n']), r['k'], r['name'])})
        elif r['status'] == 'sat':
            out['inconclusive'] = 'encoding side condition fails: %r' % (r,)
    ck.e1('E1-split_table', out)


def main():
    ck = Check('C10', repo.functions_encoded(stages.JOIN_FILES + stages.FILTER_FILES +
                                             ['matcher/apply_matcher.py']))
    ck.assumptions += stages.MODEL_ASSUMPTIONS
    quick = ck.tier == 'quick'
    P = ['C10', 'CRASH']
    ck.bounds = dict(split_table='len <= 2^16 x num_splits <= %d' % (8 if quick else 24),
                     relational='tables 2x3, 0..1 token per cell; n_jobs in [-3,5], cpu count 1..3; '
                                'all row permutations; index relabelling incl. duplicate labels')
    ck.outside += ['repetition in another process, hash seeds, real process pools (not expressible to a '
                   'solver; replays of counterexamples use real joblib)', 'tables beyond the bounds']
    split_stage(ck, 8 if quick else 24, 16)
    nj = [-3, -1, 0, 2, 3, 4]
    for e in stages.SET_JOINS:
        ck.e2('njobs-%s' % e, h_join.make_rel(stages.join_cfg(
            e, nl=2, nr=3, k=1, kmin=0, relate='njobs', compare='multiset', n_jobs=nj, cpu_count=3,
            thresholds=[0.5] if e != 'overlap_join' else [1], props=P)))
    for f in stages.FILTERS:
        cmp_ = 'multiset' if f in ('SizeFilter', 'OverlapFilter') else 'qualifying'
        ck.e2('njobs-%s' % f, h_join.make_rel(stages.filter_cfg(
            f, nl=2, nr=3, k=1, kmin=0, relate='njobs', compare=cmp_, n_jobs=nj, cpu_count=3,
            thresholds=[0.5] if f != 'OverlapFilter' else [1], props=P)))
    ents = [('join', e) for e in (stages.SET_JOINS if not quick else ['jaccard_join', 'overlap_join'])]
    ents += [('filter', f) for f in stages.FILTERS]
    for kind, e in ents:
        mk = stages.join_cfg if kind == 'join' else stages.filter_cfg
        thr = [1] if e in ('overlap_join', 'OverlapFilter') else [0.5]
        ck.e2('perm-%s' % e, h_join.make_rel(mk(
            e, nl=2, nr=3 if not quick else 2, k=1, kmin=0, relate='perm', compare='multiset',
            n_jobs=[1], thresholds=thr, props=P)))
        ck.e2('index-%s' % e, h_join.make_rel(mk(
            e, nl=2, nr=2, k=1, kmin=0, relate='index', compare='multiset', n_jobs=[1],
            thresholds=thr, missing='sym', allow_missing=[True], props=P)))
    # token order = (frequency, token), independent of row order (T1), and the edit-distance join's _id / n_jobs
    from harness import h_core, h_ed
    ck.e2('T1-token-ordering', h_core.make_t1(dict(nl=2, nr=1, k=2, kmin=0)), bounds=dict(rows='2x1', k=2))
    ck.e2('ed-join-id-njobs', h_ed.make(dict(entry='ed_join', nl=1, nr=2, lens=[0, 1], q=[2], padding=[True],
                                             return_set=[False], taus=[1], comp_ops=['<='], missing='sym',
                                             allow_missing=[False, True], n_jobs=[1, 2, 3], out_sim_score=[True],
                                             props=['C10', 'CRASH'])), bounds=dict(len='0..1', rows='1x2'))
    ck.finish()


if __name__ == '__main__':
    main()
