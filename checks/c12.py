#!/usr/bin/env python
"""C12 - calls leave inputs and tokenizer untouched; no call affects a later one."""
import ast, sys, os
sys.path.insert(0, os.path.dirname(os.path.dirname(os.path.abspath(__file__))))
from checks.common import Check
from checks import stages
from engine import repo
from harness import h_join

ALLOWED_GLOBALS = {'COMP_OP_MAP', 'default_output_file_path'}   # reviewed: a constant dict and a str


def scan_module_state():
    """Module-level mutable state of the package (AST scan of the working tree).  The inductive
    argument (state = tokenizer mode + input frames) is void if new global state appears."""
    found = []
    root = os.path.join(repo.REPO, 'py_stringsimjoin')
    for dp, dn, fn in os.walk(root):
        if 'tests' in dp or 'datasets' in dp:
            continue
        for f in fn:
            if not f.endswith('.py'):
                continue
            p = os.path.join(dp, f)
            try:
                tree = ast.parse(open(p).read())
            except SyntaxError:
                continue
            for node in tree.body:
                if isinstance(node, (ast.Assign, ast.AnnAssign, ast.AugAssign)):
                    tg = node.targets if isinstance(node, ast.Assign) else [node.target]
                    v = node.value
                    if isinstance(v, (ast.Dict, ast.List, ast.Set, ast.Call, ast.ListComp, ast.DictComp)):
                        for t in tg:
                            if isinstance(t, ast.Name) and not t.id.startswith('__'):
                                found.append((os.path.relpath(p, root), t.id))
            for node in ast.walk(tree):
                if isinstance(node, ast.Global):
                    found.append((os.path.relpath(p, root), 'global ' + ','.join(node.names)))
    return found


def main():
    ck = Check('C12', repo.functions_encoded(stages.JOIN_FILES + stages.FILTER_FILES))
    ck.assumptions += stages.MODEL_ASSUMPTIONS
    quick = ck.tier == 'quick'
    P = ['C12', 'CRASH']
    st = scan_module_state()
    extra = [x for x in st if x[1] not in ALLOWED_GLOBALS]
    if extra:
        ck.note_inconclusive('module-level mutable state found (inductive argument void): %r' % extra)
    ck.bounds = dict(step='one call of every join / filter_tables from either tokenizer mode, 2x2 rows, '
                          '<= 2 tokens (bags with repeats), symbolic missing flags, n_jobs in {1,2}',
                     histories='all ordered pairs of %d calls sharing frames and tokenizer' % 8)
    ck.outside += ['real pandas aliasing / copy-on-write and dtype preservation (the model records '
                   'mutating calls; replays compare real frames before/after)',
                   'the converter functions (C16, not applicable)', 'histories longer than two calls '
                   'are covered by the inductive step only']
    dims = dict(nl=2, nr=2 if quick else 3, k=1, kmin=0, bag=True, tok_return_set=[True, False],
                missing='sym', allow_missing=[False, True], n_jobs=[1, 2] if quick else [1, 2, 3], props=P,
                validate_every=80)
    for e in stages.SET_JOINS:
        cfg = stages.join_cfg(e, **dims)
        cfg['thresholds'] = [1] if e == 'overlap_join' else [0.5]
        ck.e2('step-%s' % e, h_join.make(cfg))
    for f in stages.FILTERS:
        cfg = stages.filter_cfg(f, **dims)
        cfg['thresholds'] = [1] if f == 'OverlapFilter' else [0.5]
        ck.e2('step-%s' % f, h_join.make(cfg))
    if not quick:
        # bags with repeated tokens (k=2) on small tables
        for e in stages.SET_JOINS:
            cfg = stages.join_cfg(e, nl=1, nr=2, k=2, kmin=0, bag=True, tok_return_set=[True, False],
                                  n_jobs=[1, 2], props=P, validate_every=80)
            cfg['thresholds'] = [1] if e == 'overlap_join' else [0.5]
            ck.e2('step-bags-%s' % e, h_join.make(cfg))
    # tables that consist of exactly the key and the join column (projection may alias the input)
    for e in ('jaccard_join', 'overlap_coefficient_join', 'overlap_join'):
        cfg = stages.join_cfg(e, nl=2, nr=2, k=1, kmin=0, tok_return_set=[True, False], missing='sym',
                              allow_missing=[False, True], n_jobs=[1], props=P, extra=(), validate_every=40)
        cfg['thresholds'] = [1] if e == 'overlap_join' else [0.5]
        ck.e2('two-column-%s' % e, h_join.make(cfg))
    # edit distance: tokenizer passed in set mode is restored; the shared default tokenizer is left as found
    from harness import h_ed
    ck.e2('ed-tokenizer-restored', h_ed.make(dict(entry='ed_join', nl=1, nr=2, lens=[0, 1], q=[2, 3], padding=[True],
                                                  return_set=[False, True], taus=[1], comp_ops=['<='], missing='sym',
                                                  allow_missing=[False, True], n_jobs=[1, 2], props=P)))
    ck.e2('ed-default-tokenizer', h_ed.make(dict(entry='ed_join', nl=1, nr=2, lens=[0, 1], q=[2], padding=[True],
                                                 return_set=[False], taus=[1], comp_ops=['<='], default_tok=True,
                                                 n_jobs=[1, 2], props=P + ['C03'])))
    # a q=2 call first, then the q=3 call under test on the same tables (state kept between calls?)
    ck.e2('ed-history-q2-then-q3', h_ed.make(dict(entry='ed_join', nl=1, nr=2, lens_l=[3], lens_r=[3], concrete_rows_r={1: 'zzzz'}, alphabet=2, q=[3],
                                                  padding=[True], return_set=[False], taus=[1], comp_ops=['<='],
                                                  warmup_q=2, props=P + ['C03'])))
    calls = [dict(entry='jaccard_join', threshold=0.5), dict(entry='cosine_join', threshold=0.5, n_jobs=2),
             dict(entry='dice_join', threshold=0.5, allow_missing=True),
             dict(entry='overlap_coefficient_join', threshold=0.5, n_jobs=2),
             dict(entry='overlap_join', threshold=1),
             dict(entry='filter_tables', filter='PositionFilter', measure='JACCARD', threshold=0.5, kind='filter'),
             dict(entry='filter_tables', filter='SizeFilter', measure='COSINE', threshold=0.5, kind='filter', n_jobs=2),
             dict(entry='filter_tables', filter='OverlapFilter', measure='OVERLAP', threshold=1, kind='filter')]
    ck.e2('histories', h_join.make_history(dict(nl=2, nr=2, k=1, kmin=0, bag=True,
                                                tok_return_set=[True, False], missing='sym', calls=calls)))
    ck.finish({'module_level_state': [list(x) for x in st]})


if __name__ == '__main__':
    main()
