#!/usr/bin/env python
"""C15 - invalid arguments are rejected up front; valid ones are never rejected."""
import sys, os
sys.path.insert(0, os.path.dirname(os.path.dirname(os.path.abspath(__file__))))
from checks.common import Check
from checks import stages
from engine import repo
from harness import h_valid


def main():
    ck = Check('C15', repo.functions_encoded(['utils/validation.py', 'filter/filter.py',
                                              'matcher/apply_matcher.py', 'profiler/profiler.py'] +
                                             stages.JOIN_FILES + stages.FILTER_FILES +
                                             ['join/edit_distance_join_py.py']))
    ck.assumptions += stages.MODEL_ASSUMPTIONS + [
        'dtypes are tags in the model (object, pandas string dtype, int64, float64); replays use real '
        'pandas dtypes']
    ck.bounds = dict(matrix='every entry point x every documented precondition (symbolic choice) in a '
                            '2x2 symbolic context; thresholds outside the range symbolic',
                     valid_shapes='normal (symbolic missing flags), no rows, one row, all missing, all '
                                  'empty, pandas string dtype')
    ck.outside += ['whatever real pandas does that dtype tags do not capture']
    entries = list(h_valid.JOINS) + ['ctor:' + f for f in h_valid.FILTERS]
    for f in h_valid.FILTERS:
        entries += ['filter_tables:' + f, 'filter_candset:' + f]
    entries += ['apply_matcher', 'profile']
    for e in entries:
        cfg = dict(entry=e)
        if e.startswith('ctor:') and not e.endswith('OverlapFilter'):
            cfg['measures'] = ['JACCARD', 'COSINE', 'DICE', 'OVERLAP', 'EDIT_DISTANCE']
        ck.e2(e, h_valid.make(cfg), stop_on_violation=False, chunk_paths=100)
    for f in ('SizeFilter', 'PrefixFilter'):
        ck.e2('ctor-ED:' + f, h_valid.make(dict(entry='ctor:' + f, measure='EDIT_DISTANCE', valid=False,
                                               kinds=['non-qgram-tokenizer', 'threshold-low'])),
              stop_on_violation=False)
    ck.finish()


if __name__ == '__main__':
    main()
