#!/usr/bin/env python
"""C17 - the profiler reports exact unique/missing counts and key suitability."""
import sys, os
sys.path.insert(0, os.path.dirname(os.path.dirname(os.path.abspath(__file__))))
from checks.common import Check
from checks import stages
from engine import repo
from harness import h_prof


def main():
    ck = Check('C17', repo.functions_encoded(['profiler/profiler.py', 'utils/validation.py']))
    quick = ck.tier == 'quick'
    B = 20 if quick else 21
    ck.assumptions += [
        'the counts themselves (Series.unique, isnull) are pandas: they are the symbolic inputs u, m, n '
        'constrained to be realisable (0 <= m <= n, distinct count compatible with m)',
        'float arithmetic of the profiler encoded as IEEE doubles (E1 proxies), round(x,2) exactly']
    ck.bounds = dict(rows='1 <= n <= 2^%d' % B, attributes=2, profile_attrs='None, one, both, reversed')
    ck.outside += ['tables above 2^%d rows' % B, 'dtype-specific behaviour of Series.unique / isnull beyond '
                   'the six dtype kinds of the dtypes stage (replays and trace validation build real columns '
                   'of those dtypes)']
    ck.e2('comments-and-stats', h_prof.make(dict(B=B, attrs=['a'], profile_attrs=[None])),
          bounds=dict(B=B), stop_on_violation=False, chunk_paths=50)
    ck.e2('shape', h_prof.make(dict(B=8, attrs=['a', 'b'],
                                    profile_attrs=[None, ['a'], ['b', 'a'], ['b'], []])),
          bounds=dict(B=8), stop_on_violation=True, chunk_paths=50)
    # "any dtypes": the column's dtype (what `.dtype.kind` / `.dtype.name` answer) is a symbolic
    # choice; every kind can hold missing values (float NaN, nullable Int64/UInt32 NA, NaT, None)
    ck.e2('dtypes', h_prof.make(dict(B=8 if quick else 12, attrs=['a'], profile_attrs=[None],
                                     kinds=['O', 'f', 'i', 'u', 'M', 'S'], validate_every=3)),
          bounds=dict(B=8 if quick else 12, dtype_kinds='object, float64, Int64, UInt32, datetime64, string'),
          stop_on_violation=False, chunk_paths=50)
    ck.finish()


if __name__ == '__main__':
    main()
