"""Shared driver for the per-property checks: stages, replay of counterexamples on the real stack,
known-findings protocol, evidence file, exit status (0 held / 1 violation / 2 inconclusive)."""
import fnmatch
import json
import os
import subprocess
import sys
import time
import warnings

warnings.filterwarnings('ignore')
ROOT = os.path.dirname(os.path.dirname(os.path.abspath(__file__)))
if ROOT not in sys.path:
    sys.path.insert(0, ROOT)

from engine import repo                      # noqa: E402
from engine.pathsym import core as ps        # noqa: E402
from harness import replay as replay_mod     # noqa: E402

PY = os.path.join(ROOT, '.venv', 'bin', 'python')
EXIT_OK, EXIT_VIOLATION, EXIT_INCONCLUSIVE = 0, 1, 2


def tier_from_argv(argv=None):
    argv = sys.argv[1:] if argv is None else argv
    t = os.environ.get('VERIF_TIER')
    for a in argv:
        if a in ('quick', 'thorough'):
            t = a
        if a.startswith('--tier='):
            t = a.split('=', 1)[1]
    return t if t in ('quick', 'thorough') else 'quick'


def load_known_findings():
    known, fixed = [], []
    p = os.path.join(ROOT, 'known_findings.txt')
    if os.path.exists(p):
        for line in open(p):
            line = line.strip()
            if not line or line.startswith('#'):
                continue
            if line.startswith('known:'):
                body = line[len('known:'):].strip()
                head, _, desc = body.partition('::')
                f = dict(x.split('=', 1) for x in head.split() if '=' in x)
                known.append({'property': f.get('property'), 'signature': f.get('signature'),
                              'desc': desc.strip()})
            elif line.startswith('fixed:'):
                fixed.append(line)
    return known, fixed


def signature(detail):
    sc = detail.get('scenario') or {}
    site = detail.get('site') or sc.get('entry') or detail.get('harness')
    if sc.get('entry') in ('filter_tables', 'filter_split') or sc.get('filter'):
        site = '%s.%s' % (sc.get('filter'), 'filter_tables' if sc.get('entry') in (
            'filter_tables', 'filter_split') else sc.get('entry'))
    sig = '%s:%s:%s:%s' % (detail.get('prop'), site, sc.get('measure') or detail.get('measure') or
                           '-', detail.get('clause'))
    if detail.get('subclass'):
        sig += ':' + detail['subclass']
    return sig


class Check(object):
    def __init__(self, prop, functions, level_text=None):
        self.prop = prop
        self.tier = tier_from_argv()
        self.seed = int(os.environ.get('VERIF_SEED', '0') or 0)
        self.t0 = time.time()
        self.stages = []
        self.violations = []       # details
        self.inconclusive = []
        self.functions = functions
        self.assumptions = []
        self.bounds = {}
        self.outside = []
        self.samples = []
        self.paths = 0
        self.decisions = 0
        self.nontrivial = 0
        self.validated = 0
        self.obligations = 0
        self.discharged = 0
        self.solver_s = 0.0
        self.queries = 0
        repo.load()
        if repo.reset_state not in ps.PATH_START_HOOKS:
            ps.PATH_START_HOOKS.append(repo.reset_state)
        print('[%s] tier=%s repo=%s' % (prop, self.tier, repo.REPO), flush=True)
        # the pandas model is diffed against real pandas on a fixed script before it is trusted
        try:
            r = subprocess.run([PY if os.path.exists(PY) else sys.executable, '-W', 'ignore',
                                os.path.join(ROOT, 'scripts', 'selfcheck_pdmodel.py')],
                               capture_output=True, text=True, timeout=300)
            self.pdmodel_selfcheck = r.stdout.strip().splitlines()[-1] if r.stdout.strip() else 'no output'
            if r.returncode != 0:
                self.inconclusive.append('pandas model differs from real pandas: %s' % r.stdout[-500:])
        except Exception as e:
            self.pdmodel_selfcheck = 'not run: %s' % e
            self.inconclusive.append('pandas model selfcheck could not run: %s' % e)

    # ---- E2 stage ----
    def _skip(self, name):
        import re
        pat = os.environ.get('VERIF_STAGES')
        if pat and not re.search(pat, name):
            self.partial = True
            return True
        return False

    def e2(self, name, fn, bounds=None, max_wall_s=None, chunk_paths=300, expect_nontrivial=True,
           stop_on_violation=False, split=None):
        if self._skip(name):
            return None
        t = time.time()
        st = ps.parallel_explore(fn, chunk_paths=chunk_paths, stop_on_violation=stop_on_violation,
                                 max_wall_s=max_wall_s, split=split)
        d = st.as_dict()
        d.update(stage=name, engine='E2 pathsym', bounds=bounds or {})
        self.stages.append(d)
        self.paths += st.paths
        self.decisions += st.decisions
        self.nontrivial += st.nontrivial
        self.validated += st.tags.get('validated', 0)
        self.solver_s += st.solver_s
        self.queries += st.checks
        for s in st.samples[:2]:
            if len(self.samples) < 8:
                self.samples.append({'stage': name, 'path': s})
        if st.inconclusive:
            self.inconclusive.append('%s: %s' % (name, st.inconclusive))
        for v in st.violations:
            det = v['detail'] if isinstance(v.get('detail'), dict) else {'msg': v['msg']}
            det.setdefault('prop', self.prop)
            det['stage'] = name
            self.violations.append(det)
        if expect_nontrivial and not st.violations and not st.inconclusive and st.nontrivial == 0:
            self.inconclusive.append('%s: vacuous - no path reached a non-trivial case' % name)
        print('[%s] stage %-28s paths=%d nontrivial=%d violations=%d %s wall=%.1fs' % (
            self.prop, name, st.paths, st.nontrivial, len(st.violations),
            ('INCONCLUSIVE ' + st.inconclusive) if st.inconclusive else '', time.time() - t),
            flush=True)
        return st

    # ---- E1 stage (filled by numkernel drivers) ----
    def e1(self, name, result):
        """result: dict(obligations, discharged, solver_s, queries, violations=[detail], inconclusive,
        samples, bounds)"""
        d = dict(stage=name, engine='E1 numkernel')
        d.update(dict((k, v) for k, v in result.items() if k not in ('violations', 'samples')))
        self.stages.append(d)
        self.obligations += result.get('obligations', 0)
        self.discharged += result.get('discharged', 0)
        self.solver_s += result.get('solver_s', 0.0)
        self.queries += result.get('queries', 0)
        for s in result.get('samples', [])[:3]:
            if len(self.samples) < 10:
                self.samples.append({'stage': name, 'obligation': s})
        if result.get('inconclusive'):
            self.inconclusive.append('%s: %s' % (name, result['inconclusive']))
        for det in result.get('violations', []):
            det.setdefault('prop', self.prop)
            det['stage'] = name
            self.violations.append(det)
        print('[%s] stage %-28s obligations=%d discharged=%d violations=%d %s solver=%.1fs' % (
            self.prop, name, result.get('obligations', 0), result.get('discharged', 0),
            len(result.get('violations', [])),
            ('INCONCLUSIVE ' + str(result['inconclusive'])) if result.get('inconclusive') else '',
            result.get('solver_s', 0.0)), flush=True)

    def note_inconclusive(self, msg):
        self.inconclusive.append(msg)

    # ---- verdict ----
    def finish(self, extra_coverage=None):
        known, fixed = load_known_findings()
        reported, known_hits, unreproduced = [], [], []
        seen_sigs = set()
        for det in self.violations:
            det['check'] = self.prop
            sig = signature(det)
            if sig in seen_sigs:
                continue
            seen_sigs.add(sig)
            path = replay_mod.write_script(det, os.environ.get('VERIF_REPLAY_DIR') or
                                           os.path.join(ROOT, 'replays'))
            env = dict(os.environ)
            env['VERIF_REPO'] = repo.REPO
            try:
                r = subprocess.run([PY if os.path.exists(PY) else sys.executable, path],
                                   capture_output=True, text=True, timeout=600, env=env)
                rc, out = r.returncode, r.stdout + r.stderr
            except subprocess.TimeoutExpired:
                rc, out = -1, 'replay timed out'
            if rc != 1:
                unreproduced.append((sig, path, out[-2000:]))
                continue
            hit = None
            for k in known:
                if k['property'] == self.prop and k['signature'] and \
                        fnmatch.fnmatch(sig, k['signature']):
                    hit = k
                    break
            if hit:
                known_hits.append((sig, hit, path))
            else:
                reported.append((sig, path, det.get('msg')))
        wall = time.time() - self.t0
        status = EXIT_OK
        for sig, hit, path in known_hits:
            print('KNOWN-FINDING: property=%s %s (%s) replay=%s' % (self.prop, hit['desc'], sig, path))
        for sig, path, out in unreproduced:
            print('[%s] counterexample did not reproduce on the real stack (%s), replay=%s\n%s'
                  % (self.prop, sig, path, out), flush=True)
            self.inconclusive.append('counterexample %s did not reproduce (model/contract issue)'
                                     % sig)
        for sig, path, msg in reported:
            print('[%s] %s' % (self.prop, msg))
            print('VIOLATION property=%s replay=%s' % (self.prop, path), flush=True)
            status = EXIT_VIOLATION
        if getattr(self, 'partial', False):
            print('[%s] PARTIAL RUN (VERIF_STAGES=%s): development/triage only' % (
                self.prop, os.environ.get('VERIF_STAGES')))
            self.inconclusive.append('partial run: stages filtered by VERIF_STAGES')
        if status == EXIT_OK and self.inconclusive:
            status = EXIT_INCONCLUSIVE
            for m in self.inconclusive:
                print('[%s] INCONCLUSIVE: %s' % (self.prop, m))
        cov = {
            'states': max(self.paths + self.obligations, 0),
            'transitions': max(self.decisions + self.queries, 0),
            'traces_validated_against_impl': self.validated,
            'samples': self.samples or [{'note': 'no sample recorded'}],
            'exhaustive': not self.inconclusive,
            'paths_explored': self.paths,
            'solver_decisions': self.decisions,
            'distinct_nontrivial': self.nontrivial + self.discharged,
            'evaluations': self.paths + self.obligations,
            'rule': 'E2: one evaluation = one feasible symbolic path of the real code (an '
                    'equivalence class of inputs decided by z3); non-trivial = the path reached the '
                    'oracle with at least one pair/row the property speaks about. E1: one '
                    'evaluation = one SMT obligation over all doubles of the threshold range; '
                    'counted non-trivial when discharged (its negated-conclusion twin is sat).',
            'obligations': self.obligations,
            'discharged': self.discharged,
            'solver_queries': self.queries,
            'solver_time_s': round(self.solver_s, 2),
            'functions_encoded': self.functions,
            'bounds': self.bounds,
            'outside_bounds': self.outside,
            'stages': self.stages,
            'known_findings_hit': [k[0] for k in known_hits],
            'pdmodel_selfcheck': getattr(self, 'pdmodel_selfcheck', None),
            'inconclusive': self.inconclusive,
        }
        if extra_coverage:
            cov.update(extra_coverage)
        ev = {'property_id': self.prop, 'tier': self.tier, 'seed': self.seed,
              'level': 'model_checking', 'coverage': cov, 'assumptions': self.assumptions,
              'wall_s': round(wall, 2), 'violations': len(reported)}
        evdir = os.environ.get('VERIF_EVIDENCE_DIR') or os.path.join(ROOT, 'evidence')
        os.makedirs(evdir, exist_ok=True)
        with open(os.path.join(evdir, '%s.json' % self.prop), 'w') as f:
            json.dump(ev, f, indent=1, default=str)
        print('[%s] %s wall=%.1fs paths=%d obligations=%d/%d' % (
            self.prop, {0: 'HELD within bounds', 1: 'VIOLATION', 2: 'INCONCLUSIVE'}[status], wall,
            self.paths, self.discharged, self.obligations), flush=True)
        sys.exit(status)
