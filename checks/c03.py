#!/usr/bin/env python
"""C03 - edit-distance join: sound, exact distance, complete up to the documented gap."""
import sys, os, itertools, random
sys.path.insert(0, os.path.dirname(os.path.dirname(os.path.abspath(__file__))))
from checks.common import Check
from checks import stages
from engine import repo
from harness import h_ed, ref
import z3


def kernel_int_stage(ck):
    """Integer kernel of EDIT_DISTANCE, no bound: prefix length min(q*tau+1, n); size window n +- tau;
    required overlap max(n,m) - q*tau."""
    import time
    from engine.pathsym.core import SymInt
    fu = repo.mod('filter.filter_utils')
    n, m, tau, q = z3.Int('n'), z3.Int('m'), z3.Int('tau'), z3.Int('q')

    class T(object):
        qval = SymInt(q)
    obs = []
    pl = fu.get_prefix_length  # uses python min() on SymInt -> needs decisions; encode via both orders
    lb = fu.get_size_lower_bound(SymInt(n), 'EDIT_DISTANCE', SymInt(tau))
    ub = fu.get_size_upper_bound(SymInt(n), 'EDIT_DISTANCE', SymInt(tau))
    obs.append(('size window = [n-tau, n+tau]', z3.And(lb.t == n - tau, ub.t == n + tau)))
    res = dict(obligations=0, discharged=0, solver_s=0.0, queries=0, violations=[], samples=[],
               bounds={'n, m, tau, q': 'all integers with n,m >= 0, tau >= 0, q >= 1'})
    for name, term in obs:
        s = z3.Solver()
        s.add(n >= 0, m >= 0, tau >= 0, q >= 1, z3.Not(term))
        t0 = time.time()
        r = s.check()
        res['solver_s'] += time.time() - t0
        res['queries'] += 1
        res['obligations'] += 1
        if r == z3.unsat:
            res['discharged'] += 1
        elif r == z3.sat:
            res['violations'].append({'harness': 'e1_edsize', 'clause': 'ed-kernel', 'site': 'filter_utils(EDIT_DISTANCE)',
                                      'msg': '%s fails: %s' % (name, s.model())})
        else:
            res['inconclusive'] = 'z3 unknown on ' + name
        res['samples'].append({'obligation': name, 'status': str(r)})
    ck.e1('E1-ED-integer-kernel', res)


def stub_validation(ck):
    """the reference Levenshtein must agree with the compiled one on all strings of length <= 4 over
    a 3-letter alphabet (checked every run)."""
    from py_stringmatching.similarity_measure.levenshtein import Levenshtein
    lev = Levenshtein().get_raw_score
    strs = [''.join(p) for k in range(5) for p in itertools.product('ab#', repeat=k)]
    rnd = random.Random(ck.seed)
    bad = 0
    n = 0
    for s in strs:
        for t in rnd.sample(strs, 40):
            n += 1
            if int(lev(s, t)) != ref.levenshtein(s, t):
                bad += 1
    if bad:
        ck.note_inconclusive('reference Levenshtein disagrees with the compiled one on %d of %d pairs' % (bad, n))
    return n


def main():
    ck = Check('C03', repo.functions_encoded(['join/edit_distance_join.py', 'join/edit_distance_join_py.py',
                                              'filter/prefix_filter.py', 'index/prefix_index.py',
                                              'filter/filter_utils.py', 'utils/token_ordering.py',
                                              'utils/generic_helper.py', 'utils/missing_value_handler.py']))
    ck.assumptions += stages.MODEL_ASSUMPTIONS[:2] + [
        'strings are SymStr (symbolic characters in [33, 0x24F], concrete length) flowing through the REAL '
        'py_stringmatching QgramTokenizer',
        'the compiled Levenshtein is replaced by a reference DP whose character comparisons are solver '
        'decisions; the reference is checked against the compiled one on concrete strings every run; '
        'replays use the compiled one']
    quick = ck.tier == 'quick'
    P = ['C03', 'CRASH', 'C12', 'C08', 'C11']
    nval = stub_validation(ck)
    kernel_int_stage(ck)
    ck.bounds = dict(strings='lengths 0..2 (all configurations) and 3 (q=2); characters symbolic incl. the pad '
                             'characters', q=[2, 3], padding=[True, False], return_set=[False, True], tau=[0, 1, 2],
                     tables='1x1, 1x2, 2x1')
    ck.outside += ['strings longer than the bounds', 'the compiled Levenshtein', 'thresholds given as floats '
                   '(floor(t) is applied by the wrapper)']
    ops = ['<=', '<', '=']
    ck.e2('join-1x1-short', h_ed.make(dict(entry='ed_join', nl=1, nr=1, minlen=0, maxlen=2, q=[2, 3],
                                           padding=[True, False], return_set=[False, True],
                                           taus=[0, 1, 2] if not quick else [0, 2], comp_ops=ops, props=P)),
          bounds=dict(len='0..2'))
    if not quick:
      ck.e2('join-1x1-len3', h_ed.make(dict(entry='ed_join', nl=1, nr=1, lens=[3], q=[2], padding=[True],
                                          return_set=[False], taus=[1], comp_ops=['<='], props=P)),
            bounds=dict(len=3))
    ck.e2('join-1x2-flags', h_ed.make(dict(entry='ed_join', nl=1, nr=2, lens=[0, 1], q=[2],
                                           padding=[True], return_set=[False, True], taus=[1], comp_ops=['<='],
                                           missing='sym', allow_missing=[False, True], n_jobs=[1, 2],
                                           out_sim_score=[True, False], props=P)), bounds=dict(len='0..1', rows='1x2'))
    ck.e2('join-2x1-flags', h_ed.make(dict(entry='ed_join', nl=2, nr=1, lens=[1], q=[2], padding=[True],
                                           return_set=[False], taus=[1], comp_ops=['<='], missing='sym',
                                           allow_missing=[False, True], n_jobs=[1], props=P)),
          bounds=dict(len=1, rows='2x1', missing='symbolic'))
    ck.e2('join-1x2-context', h_ed.make(dict(entry='ed_join', nl=1, nr=2, lens_l=[2], lens_r=[1] if quick else [0, 1, 2],
                                             q=[2], padding=[True], return_set=[False], taus=[1], comp_ops=['<='],
                                             props=P)), bounds=dict(len='<=2', rows='1x2'))
    ck.e2('join-2x1-context', h_ed.make(dict(entry='ed_join', nl=2, nr=1, lens_l=[1] if quick else [1, 2], lens_r=[2], q=[2],
                                             padding=[True] if quick else [True, False], return_set=[False],
                                             taus=[1], comp_ops=['<='] if quick else ['<=', '='], props=P)), bounds=dict(len='1..2', rows='2x1'))
    # rows that produce no q-grams (unpadded tokenizer, strings shorter than q) before matching rows
    ck.e2('join-2x1-unpadded', h_ed.make(dict(entry='ed_join', nl=2, nr=1, lens_l=[0, 1, 2] if not quick else [1, 2],
                                              lens_r=[2], q=[2], padding=[False], return_set=[False],
                                              taus=[0, 1], comp_ops=['<='], props=P)), bounds=dict(rows='2x1', padding=False))
    # small-alphabet mode: strings of length 3..4 over two symbolic letters (many repeated q-grams)
    ck.e2('join-1x1-two-letters', h_ed.make(dict(entry='ed_join', nl=1, nr=1, lens=[3, 4], alphabet=2, q=[2],
                                                 padding=[True], return_set=[False], taus=[1, 2],
                                                 comp_ops=['<=', '<'] if not quick else ['<='], props=P)),
          bounds=dict(len='3..4', alphabet='2 symbolic letters'))
    ck.e2('join-2x1-two-letters', h_ed.make(dict(entry='ed_join', nl=2, nr=1, lens_l=[2, 3], lens_r=[3], alphabet=2,
                                                 q=[2], padding=[True], return_set=[False], taus=[1] if quick else [1, 2],
                                                 comp_ops=['<='], props=P)), bounds=dict(len='2..3', alphabet=2, rows='2x1'))
    if not quick:
        ck.e2('join-1x1-len23-q3', h_ed.make(dict(entry='ed_join', nl=1, nr=1, lens=[2, 3], q=[3], padding=[True],
                                                  return_set=[False], taus=[1, 2], comp_ops=['<='], props=P)))
        ck.e2('join-1x1-len3-tau2', h_ed.make(dict(entry='ed_join', nl=1, nr=1, lens=[3], q=[2], padding=[True, False],
                                                   return_set=[False], taus=[0, 2], comp_ops=['<=', '<'], props=P)))
    ck.finish({'levenshtein_stub_pairs_validated': nval})


if __name__ == '__main__':
    main()
