#!/usr/bin/env python
"""Diffs the pandas model (engine/pathsym/pdmodel.py) against real pandas on a fixed concrete script.
Exit 0 = the modelled behaviours agree.  Run by hand / by scripts/ensure_env.sh --selfcheck."""
import sys, os
sys.path.insert(0, os.path.dirname(os.path.dirname(os.path.abspath(__file__))))
import pandas as pd
from engine.pathsym import pdmodel as pm


def norm(v):
    if v is None or (isinstance(v, float) and v != v):
        return 'NaN'
    if isinstance(v, float) and v == int(v):
        return int(v)
    return v


def rows(f):
    if isinstance(f, pm.FakeFrame):
        return list(f.columns), [tuple(norm(x) for x in r) for r in f._rows], list(f.index)
    return list(f.columns), [tuple(norm(x) for x in r) for r in f.itertuples(index=False, name=None)], list(f.index)


def both(fn):
    out = []
    for mod in (pm.PdModule, pd):
        try:
            r = fn(mod)
            out.append(('ok', rows(r) if hasattr(r, 'columns') else r))
        except Exception as e:
            out.append(('exc', type(e).__name__))
    return out


CASES = {
    'ragged-short-rows-padded': lambda p: p.DataFrame([[1, 2, 3], [4, 5]], columns=['a', 'b', 'c']),
    'all-rows-too-short': lambda p: p.DataFrame([[1, 2], [4, 5]], columns=['a', 'b', 'c']),
    'all-rows-too-long': lambda p: p.DataFrame([[1, 2, 3, 4]], columns=['a', 'b', 'c']),
    'empty-rows': lambda p: p.DataFrame([], columns=['a', 'b']),
    'concat-keeps-labels': lambda p: p.concat([p.DataFrame([[1, 2]], columns=['a', 'b']), p.DataFrame([[3, 4]], columns=['a', 'b'])]),
    'concat-ignore-index': lambda p: p.concat([p.DataFrame([[1, 2]], columns=['a', 'b']), p.DataFrame([[3, 4]], columns=['a', 'b'])], ignore_index=True),
    'concat-column-union': lambda p: p.concat([p.DataFrame([[1, 2]], columns=['a', 'b']), p.DataFrame([[3, 4, 5]], columns=['a', 'b', 'c'])]),
    'concat-with-empty': lambda p: p.concat([p.DataFrame([], columns=['a', 'b']), p.DataFrame([[3, 4]], columns=['a', 'b'])]),
    'bool-mask': lambda p: p.DataFrame([[1, 'x'], [2, 'y'], [3, 'z']], columns=['a', 'b'])[[True, False, True]],
    'slice': lambda p: p.DataFrame([[1, 'x'], [2, 'y'], [3, 'z']], columns=['a', 'b'])[1:3],
    'column-list': lambda p: p.DataFrame([[1, 'x', 7], [2, 'y', 8]], columns=['a', 'b', 'c'])[['c', 'a']],
    'dropna-subset': lambda p: p.DataFrame([[1, None, 'k'], [2, 'y', None]], columns=['a', 'b', 'c']).dropna(axis=0, subset=['b']),
    'dropna-any': lambda p: p.DataFrame([[1, None, 'k'], [2, 'y', 'm'], [3, 'z', None]], columns=['a', 'b', 'c']).dropna(axis=0),
    'isnull-mask': lambda p: (lambda f: f[p.isnull(f['b'])])(p.DataFrame([[1, None], [2, 'y']], columns=['a', 'b'])),
    'notnull-mask': lambda p: (lambda f: f[p.notnull(f['b'])])(p.DataFrame([[1, None], [2, 'y']], columns=['a', 'b'])),
    'insert': lambda p: (lambda f: (f.insert(0, '_id', range(2)), f)[1])(p.DataFrame([[1, 'x'], [2, 'y']], columns=['a', 'b'])),
    'set-index': lambda p: p.DataFrame([['k1', 1], ['k2', 2]], columns=['Attribute', 'v']).set_index('Attribute'),
    'unique-counts-nan-once': lambda p: len(p.DataFrame([[None], ['a'], [None], ['a'], ['b']], columns=['c'])['c'].unique()),
    'isnull-sum': lambda p: sum(p.DataFrame([[None], ['a'], [None]], columns=['c'])['c'].isnull()),
    'empty-flag': lambda p: p.DataFrame([], columns=['a']).empty,
}


def dup_label_cases():
    def mk(p):
        if p is pd:
            return pd.DataFrame([[1, 'x'], [2, 'y'], [3, 'z']], columns=['a', 'b'], index=[7, 7, 3])
        return pm.FakeFrame([[1, 'x'], [2, 'y'], [3, 'z']], columns=['a', 'b'], index=[7, 7, 3])
    return {
        'loc-dup-labels': lambda p: mk(p).loc[[7, 3]],
        'drop-dup-label': lambda p: mk(p).drop([7]),
        'mask-keeps-labels': lambda p: mk(p)[[False, True, True]],
    }


def main():
    bad = 0
    cases = dict(CASES)
    cases.update(dup_label_cases())
    for name, fn in cases.items():
        a, b = both(fn)
        if a != b:
            bad += 1
            print('DIFF %s\n  model: %r\n  pandas: %r' % (name, a, b))
    print('pdmodel selfcheck: %d cases, %d differences' % (len(cases), bad))
    return 1 if bad else 0


if __name__ == '__main__':
    sys.exit(main())
