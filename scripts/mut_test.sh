#!/bin/sh
# usage: mut_test.sh <patchfile> <label> <check> [<check>...]  - applies the patch to a scratch worktree of /repo HEAD
# and runs the given checks (quick tier) against it; evidence/replays go to /tmp/mw/out/<label>.
set -u
PATCH=$1; LABEL=$2; shift 2
W=/tmp/mw/$LABEL
mkdir -p /tmp/mw/out/$LABEL
git -C /repo worktree remove --force $W >/dev/null 2>&1
git -C /repo worktree add -q --detach $W HEAD || exit 3
if ! git -C $W apply -3 $PATCH >/tmp/mw/out/$LABEL/apply.log 2>&1; then
  echo "$LABEL APPLY-FAILED"; git -C /repo worktree remove --force $W; exit 3
fi
for c in "$@"; do
  VERIF_REPO=$W VERIF_EVIDENCE_DIR=/tmp/mw/out/$LABEL VERIF_REPLAY_DIR=/tmp/mw/out/$LABEL \
    timeout ${MUT_TIMEOUT:-1500} /verif/.venv/bin/python -W ignore /verif/checks/$c.py quick > /tmp/mw/out/$LABEL/$c.log 2>&1
  rc=$?
  echo "$LABEL $c exit=$rc $(grep -c '^VIOLATION' /tmp/mw/out/$LABEL/$c.log) violation(s) $(grep -m1 -E '^VIOLATION|INCONCLUSIVE' /tmp/mw/out/$LABEL/$c.log | cut -c1-160)"
done
git -C /repo worktree remove --force $W
