#!/usr/bin/env python3
"""Run the registered checks (quick tier) against every confirmed seeded change in /verif/seeded:
the patch is applied in a scratch worktree of /repo HEAD (never in /repo), the check runs with
VERIF_REPO pointing there, the outcome is recorded in the seed's meta.json.
usage: run_seeds.py [--full] [seed ids...]   (--full: whole checks; default: the stages named in PLAN)"""
import json, os, re, subprocess, sys, time

SEEDS = '/verif/seeded'
# seed -> [(check, stage regex for the fast run)]
PLAN = {
 'C01_m1': [('c01', 'core-JACCARD'), ('c04', 'tables-PositionFilter-JACCARD')],
 'C01_m2': [('c10', 'E1-split'), ('c05', 'E1-split')],
 'C02_m1': [('c02', 'api-jaccard|core-JACCARD')],
 'C02_m2': [('c10', 'E1-split')],
 'C03_m1': [('c03', 'join-1x1-short'), ('c01', 'T1')],
 'C03_m2': [('c10', 'E1-split')],
 'C04_m1': [('c04', 'tables-PositionFilter-JACCARD'), ('c01', 'core-JACCARD')],
 'C04_m2': [('c01', 'T1|api-jaccard'), ('c04', 'tables-PrefixFilter-JACCARD')],
 'C05_m1': [('c05', 'cached-missing')],
 'C05_m2': [('c05', 'E1-split')],
 'C06_m1': [('c06', 'candset-any-filter')],
 'C06_m2': [('c06', 'overlap-tables-core|overlap-pair')],
 'C07_m1': [('c07', 'jaccard_join-PrefixFilter'), ('c01', 'core-JACCARD')],
 'C07_m2': [('c10', 'E1-split')],
 'C08_m1': [('c08', 'jaccard_join-2x2-o0|SizeFilter-2x2-o0')],
 'C08_m2': [('c05', 'cached-missing')],
 'C09_m1': [('c09', 'api-SizeFilter')],
 'C09_m2': [('c09', 'api-jaccard_join|core-free-JACCARD')],
 'C10_m1': [('c10', 'E1-split')],
 'C10_m2': [('c10', 'perm-jaccard|perm-PositionFilter'), ('c01', 'core-JACCARD')],
 'C11_m1': [('c11', 'api-jaccard_join|api-SizeFilter')],
 'C11_m2': [('c11', 'api-jaccard_join')],
 'C12_m1': [('c12', 'step-cosine_join|histories')],
 'C12_m2': [('c12', 'two-column')],
 'C13_m1': [('c13', 'transpose-jaccard'), ('c01', 'core-JACCARD')],
 'C13_m2': [('c13', 'transpose-overlap_join|refine-overlap_join'), ('c06', 'overlap-tables-core')],
 'C14_m1': [('c14', 'tables-SizeFilter')],
 'C14_m2': [('c14', 'ed-position-subset')],
 'C15_m1': [('c15', 'dice_join')],
 'C15_m2': [('c15', 'edit_distance_join')],
 'C17_m1': [('c17', 'dtypes')],
 'C17_m2': [('c17', 'comments')],
 # round 2
 'C01_r2m1': [('c01', 'E1-K'), ('c04', 'E1-K')],
 'C01_r2m2': [('c01', 'api-jaccard_join-k2'), ('c08', 'jaccard_join-2x2-o1'), ('c11', 'api-jaccard_join')],
 'C02_r2m1': [('c02', 'api-jaccard')],
 'C02_r2m2': [('c02', 'core-OC')],
 'C03_r2m1': [('c03', 'join-2x1-unpadded')],
 'C03_r2m2': [('c03', 'join-1x1-short|two-letters')],
 'C04_r2m1': [('c04', 'ed-pair-two-letters-PositionFilter|ed-pair-PositionFilter')],
 'C04_r2m2': [('c06', 'overlap-tables-core'), ('c04', 'tables-OverlapFilter')],
 'C05_r2m1': [('c05', 'uncached-3rows|uncached-ops')],
 'C05_r2m2': [('c05', 'split-projection|uncached-ops')],
 'C06_r2m1': [('c06', 'overlap-tables-core')],
 'C06_r2m2': [('c06', 'candset-SizeFilter|candset-PrefixFilter')],
 'C07_r2m1': [('c01', 'E1-K'), ('c04', 'E1-K')],
 'C07_r2m2': [('c03', 'two-letters'), ('c07', 'ed-pipeline')],
 'C08_r2m1': [('c06', 'overlap-pair'), ('c08', 'pair-OverlapFilter')],
 'C08_r2m2': [('c08', 'jaccard_join-2x2-o1|SizeFilter-2x2-o1')],
 'C09_r2m1': [('c09', 'api-PrefixFilter')],
 'C09_r2m2': [('c09', 'api-jaccard_join|api-PositionFilter')],
 'C10_r2m1': [('c10', 'ed-join-id-njobs')],
 'C10_r2m2': [('c01', 'T1'), ('c10', 'T1-token-ordering')],
 'C11_r2m1': [('c11', 'api-jaccard_join|api-PrefixFilter')],
 'C11_r2m2': [('c11', 'api-dice_join')],
 'C12_r2m1': [('c12', 'step-dice_join')],
 'C12_r2m2': [('c12', 'step-jaccard_join')],
 'C13_r2m1': [('c13', 'transpose-core-JACCARD'), ('c01', 'core-JACCARD')],
 'C13_r2m2': [('c13', 'transpose-overlap'), ('c02', 'api-overlap')],
 'C14_r2m1': [('c14', 'ed-size-tables')],
 'C14_r2m2': [('c14', 'ed-position-subset')],
 'C15_r2m1': [('c15', 'filter_candset')],
 'C15_r2m2': [('c15', 'ctor:SizeFilter')],
 'C17_r2m1': [('c17', 'comments')],
 'C17_r2m2': [('c17', 'comments')],
 # round 3
 'C01_r3m1': [('c01', 'core-JACCARD-1x1-k5|core-JACCARD-1x2'), ('c13', 'transpose-core-JACCARD')],
 'C01_r3m2': [('c02', 'verify-step')],
 'C02_r3m1': [('c02', 'verify-step')],
 'C02_r3m2': [('c02', 'api-overlap_coefficient|core-OC'), ('c09', 'api-overlap_coefficient|core-OC')],
 'C03_r3m1': [('c03', 'two-letters|join-1x1-short')],
 'C03_r3m2': [('c03', 'join-1x1-short|two-letters')],
 'C04_r3m1': [('c04', 'pair-PrefixFilter')],
 'C04_r3m2': [('c04', 'tables-PrefixFilter')],
 'C05_r3m1': [('c05', 'cached-missing|split-projection')],
 'C05_r3m2': [('c05', 'uncached-ops|cached-missing|split-projection')],
 'C06_r3m1': [('c06', 'candset-')],
 'C06_r3m2': [('c06', 'keyed-by-attr')],
 'C07_r3m1': [('c12', 'ed-history')],
 'C07_r3m2': [('c07', 'overlap_join'), ('c05', 'uncached-ops')],
 'C08_r3m1': [('c08', 'matcher-missing'), ('c05', 'uncached-ops|cached-missing')],
 'C08_r3m2': [('c03', 'join-2x1-flags')],
 'C09_r3m1': [('c09', 'api-SuffixFilter')],
 'C09_r3m2': [('c09', 'api-overlap_coefficient'), ('c11', 'api-overlap_coefficient')],
 'C10_r3m1': [('c12', 'ed-history')],
 'C10_r3m2': [('c10', 'njobs-jaccard')],
 'C11_r3m1': [('c11', 'api-jaccard_join|api-SizeFilter')],
 'C11_r3m2': [('c11', 'prefix-collision')],
 'C12_r3m1': [('c12', 'ed-history')],
 'C12_r3m2': [('c12', 'ed-tokenizer-restored')],
 'C13_r3m1': [('c13', 'transpose-core|1x1-k4'), ('c01', 'core-JACCARD-1x1-k5')],
 'C13_r3m2': [('c13', 'ed-refine-two-letters'), ('c03', 'two-letters')],
 'C14_r3m1': [('c14', 'tables-SizeFilter')],
 'C14_r3m2': [('c14', 'pair-free-PrefixFilter|pair-PrefixFilter')],
 'C15_r3m1': [('c15', 'jaccard_join|filter_tables:SizeFilter|apply_matcher')],
 'C15_r3m2': [('c15', 'edit_distance_join'), ('c03', 'join-1x1-short')],
 'C17_r3m1': [('c17', 'dtypes')],
 'C17_r3m2': [('c17', 'shape')],
}


def main():
    args = [a for a in sys.argv[1:] if not a.startswith('--')]
    full = '--full' in sys.argv
    for sid in sorted(os.listdir(SEEDS)):
        if args and sid not in args:
            continue
        sdir = os.path.join(SEEDS, sid)
        mp = os.path.join(sdir, 'meta.json')
        if not os.path.exists(mp) or sid not in PLAN:
            continue
        meta = json.load(open(mp))
        w = '/tmp/seedw/run_%s' % sid
        subprocess.run('git -C /repo worktree remove --force %s' % w, shell=True, capture_output=True)
        subprocess.run('git -C /repo worktree add -q --detach %s HEAD' % w, shell=True, check=True)
        r = subprocess.run('git apply %s' % os.path.join(sdir, 'patch.diff'), shell=True, cwd=w, capture_output=True, text=True)
        if r.returncode:
            print(sid, 'patch no longer applies:', r.stderr[-200:])
            subprocess.run('git -C /repo worktree remove --force %s' % w, shell=True)
            continue
        runs = [x for x in meta.get('check_runs', []) if False]
        for check, stages in PLAN[sid]:
            out = '/tmp/seedw/out/%s' % sid
            os.makedirs(out, exist_ok=True)
            env = dict(os.environ, VERIF_REPO=w, VERIF_EVIDENCE_DIR=out, VERIF_REPLAY_DIR=out)
            if not full:
                env['VERIF_STAGES'] = stages
            t0 = time.time()
            try:
                p = subprocess.run(['/verif/.venv/bin/python', '-W', 'ignore', '/verif/checks/%s.py' % check, 'quick'],
                                   capture_output=True, text=True, env=env, timeout=2400)
                rc, txt = p.returncode, p.stdout + p.stderr
            except subprocess.TimeoutExpired:
                rc, txt = -9, 'timeout'
            open(os.path.join(out, '%s.log' % check), 'w').write(txt)
            viol = [l for l in txt.splitlines() if l.startswith('VIOLATION')]
            msg = ''
            lines = txt.splitlines()
            for i, l in enumerate(lines):
                if l.startswith('VIOLATION') and i > 0:
                    msg = lines[i - 1][:300]
                    break
            inc = [l for l in lines if 'INCONCLUSIVE' in l and 'partial run' not in l and 'PARTIAL' not in l]
            runs.append({'check': check.upper(), 'stages': 'all' if full else stages, 'exit': rc,
                         'violation_lines': len(viol), 'seconds': round(time.time() - t0, 1),
                         'first_violation': msg, 'inconclusive': inc[:2]})
            print(sid, check, 'stages=%s' % ('all' if full else stages), 'exit=%d' % rc, '%d VIOLATION' % len(viol), msg[:140], flush=True)
        meta['check_runs'] = runs
        meta['caught_by'] = sorted(set(r['check'] for r in runs if r['exit'] == 1 and r['violation_lines']))
        json.dump(meta, open(mp, 'w'), indent=1)
        subprocess.run('git -C /repo worktree remove --force %s' % w, shell=True)
    subprocess.run('git -C /repo worktree prune', shell=True)


if __name__ == '__main__':
    main()
