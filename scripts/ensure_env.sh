#!/bin/sh
# Build /verif/.venv offline (idempotent): python 3.12 overlay of /venv with z3, cvc5, crosshair.
set -e
V=/verif/.venv
if [ -x "$V/bin/python" ] && "$V/bin/python" -c "import z3, cvc5, pandas, py_stringmatching" 2>/dev/null; then
    exit 0
fi
rm -rf "$V"
/venv/bin/python -m venv "$V"
SP=$("$V/bin/python" -c "import sysconfig; print(sysconfig.get_paths()['purelib'])")
printf '/venv/lib/python3.12/site-packages\n' > "$SP/_verif_overlay.pth"
PIP_NO_INDEX=1 "$V/bin/python" -m pip install -q --no-index --find-links /opt/veriftools/wheels z3-solver cvc5 crosshair-tool >/dev/null 2>&1 || \
PIP_NO_INDEX=1 "$V/bin/python" -m pip install -q --no-index --find-links /opt/veriftools/wheels z3-solver cvc5
"$V/bin/python" -c "import z3, cvc5, pandas, py_stringmatching; print('env ok', z3.get_version_string(), cvc5.__version__)"
