#!/usr/bin/env python3
"""Regenerates MANIFEST.json from the table below (single source of truth for the registered checks)."""
import json, os
ROOT = os.path.dirname(os.path.dirname(os.path.abspath(__file__)))

LEVEL = ('bounded symbolic model checking of the real code: every result is "holds for all values '
         'within the stated bounds under the stated stubs", decided by SMT solvers (z3 path by path '
         'in engine E2, cvc5/z3 per FP obligation in engine E1); counterexamples are replayed on the '
         'real stack before they count')

CHECKS = {
 'C01': dict(tech='E1: real filter_utils functions executed on IEEE-double proxies -> one FP-SMT obligation per kernel-contract clause and size tuple, all doubles of the threshold at once (cvc5 1.4 / z3 5.1); E2: path-wise symbolic execution (z3) of the real set_sim_join / overlap-coefficient / overlap filter splits on symbolic token rows under an arbitrary token order; replay through the public joins',
             note='thresholds in [1e-4,1]; sizes in the stated size set; rows <= 2x2 with <= 3 tokens plus one wide pair (<= 5 tokens); pandas/joblib modelled (see DESIGN 3.4); .pyx twins outside', ref='5/C01'),
 'C02': dict(tech='E2: z3-decided path exploration of the real join splits (real and unconstrained kernel, symbolic threshold) and of the public joins over the pandas model; oracle = independent three-line score formulas', note='py_stringmatching measures run for real; rows <= 2x2 (core) / 2x3 (API); pandas/joblib modelled', ref='5/C02'),
 'C03': dict(tech='E2: z3-decided path exploration of the real edit_distance_join / _edit_distance_join_split on symbolic strings (SymStr) through the REAL QgramTokenizer, real frequency ordering, PrefixIndex/PrefixFilter and integer kernel; Levenshtein replaced by a reference DP whose character comparisons are solver decisions; integer kernel obligations over unbounded ints (z3)', note='strings <= 3 characters (<= 4 over two symbolic letters), tables 1x1/1x2/2x1; compiled Levenshtein stubbed (validated against the .so every run, replays use the .so)', ref='5/C03'),
 'C04': dict(tech='E1: kernel contract K (incl. K-mono) of the real filter_utils functions as FP-SMT obligations over all doubles (cvc5/z3); E2: z3-decided paths of the real filter_pair of Size/Prefix/Position/Suffix/Overlap filters with a symbolic threshold under K, and of every _filter_tables_split under an arbitrary token order', note='pair cells <= 4 tokens; tables 1x2 rows; edit-distance measure covered in C03; conditional structure: E2 assumes K, E1 proves K for the size set; one known finding (SuffixFilter.filter_tables)', ref='5/C04'),
 'C05': dict(tech='E2: z3-decided paths of the real apply_matcher over the pandas model with an uninterpreted similarity function, symbolic integer threshold, six operators, symbolic candidate keys, missing flags, n_jobs; E1: split_table partition obligations (FP-SMT)', note='candset <= 3 (4) rows over 2x2 tables; pickling/real processes outside', ref='5/C05'),
 'C06': dict(tech='E2: z3-decided paths of the real Filter.filter_candset with an uninterpreted filter_pair (all filter behaviours at once) and with the five real filters; OverlapFilter exactness on symbolic cells / tables', note='candset <= 3 (4) rows incl. duplicate index labels; cells <= 3 tokens', ref='5/C06'),
 'C07': dict(tech='E2 relational: on each z3-decided path the join and the pipeline (filter_tables of Size/Prefix/Position/Overlap filter, then apply_matcher with the py_stringmatching raw score) run on the same symbolic tables over the pandas model; key pairs and rounded scores compared, exclusions as path terms', note='integration check at a threshold grid with the real kernel (arithmetic for all thresholds: C01/C04); tables 2x2 (<=1 token) and 1x2 (<=2 tokens); edit-distance pipeline on strings <= 2 characters', ref='5/C07'),
 'C08': dict(tech='E2: z3-decided path exploration of every join and filter_tables over the pandas model with symbolic missing flags and configuration flags; trace validation against real pandas', note='tables <= 3x2, one token per cell; pandas/joblib modelled, guarded by replay + trace validation', ref='5/C08'),
 'C09': dict(tech='E2: z3-decided path exploration with symbolic token counts (0..k), allow_empty, operator; unconstrained kernel stubs and symbolic threshold for "whatever the threshold"', note='tables 2x2; pandas/joblib modelled', ref='5/C09'),
 'C10': dict(tech='E1: split_table executed on IEEE-double proxies with symbolic length -> partition obligations for all lengths <= 2^16 (z3/cvc5 FP); E2: relational path exploration (n_jobs=1 vs symbolic n_jobs and cpu count; row permutations; index relabelling) over the pandas model', note='other-process / hash-seed clause is outside (not expressible to a solver); joblib modelled sequentially, replays use real joblib', ref='5/C10'),
 'C11': dict(tech='E2: z3-decided path exploration over symbolic column orders, output-attribute lists, prefixes and missing/empty branches; every cell a distinct marker', note='2x2 rows, 4 columns; pandas modelled', ref='5/C11'),
 'C13': dict(tech='E2 relational: join(A,B) vs join(B,A), laxer vs stricter threshold, >= vs > plus = on the same symbolic tables, z3-decided paths over the pandas model, no external oracle', note='threshold grid with the real kernel; five set joins and the edit-distance join (strings <= 2 characters); bundled datasets / large tables are outside', ref='5/C13'),
 'C14': dict(tech='E1: size-window tightness as FP-SMT obligations over all doubles (cvc5/z3), edit-distance window over unbounded integers (z3); E2: z3-decided paths for counts-alone, no-common-token (unconstrained kernel stubs, symbolic threshold) and Position subset of Prefix/Size on shared symbolic tables', note='sizes in the size set; tables <= 2x2 with <= 3 tokens; 1e-9 guard band above the 1e-4 margin', ref='5/C14'),
 'C12': dict(tech='E2: inductive step (one call from either tokenizer mode leaves tokenizer and frames as found) + all ordered pairs of calls sharing objects, z3-decided paths over the pandas model; AST scan for module-level state', note='real pandas aliasing/CoW outside (replays compare real frames); histories > 2 calls by induction only', ref='5/C12'),
 'C15': dict(tech='E2: z3-decided paths over the matrix entry point x violated precondition (symbolic choice, symbolic out-of-range thresholds, symbolic missing flags) and over degenerate valid shapes, on the pandas model; exception type, tokenizer mode, no work done before rejection', note='dtypes are tags in the model; replays use real pandas dtypes', ref='5/C15'),
 'C17': dict(tech='E2+E1: the real profile_table_for_join executed with symbolic row / distinct / missing counts as bit-vectors, float(count) exact, float(u)/float(n)*100 and round(.,2) on IEEE-double proxies (QF_BVFP); its branches are z3 decisions; oracle over all realisable counts up to 2^20 (2^21) rows; the column dtype kind is a symbolic choice (6 kinds)', note='the counting itself (Series.unique, isnull) is pandas and outside (counts are symbolic inputs); non-incremental z3 per check', ref='5/C17'),
}

NOT_APPLICABLE = [
 dict(property_id='C16', reason='series_to_str / dataframe_column_to_str are nothing but pandas/numpy dtype dispatch (astype, Series.apply/update, copy-on-write) and float repr formatting; a solver encoding would decide the property about my restatement of pandas, not about the code - no technique switch, see DESIGN.md section 6'),
]


def main():
    checks = []
    for pid in sorted(CHECKS):
        c = CHECKS[pid]
        n = pid.lower()
        checks.append({
            'property_id': pid,
            'quick_cmd': 'sh scripts/ensure_env.sh && .venv/bin/python -W ignore checks/%s.py quick' % n,
            'thorough_cmd': 'sh scripts/ensure_env.sh && .venv/bin/python -W ignore checks/%s.py thorough' % n,
            'evidence_file': '/verif/evidence/%s.json' % pid,
            'replay_cmd_template': '/verif/.venv/bin/python {path}',
            'engine': 'E1 numkernel + E2 pathsym' if pid in ('C01', 'C04', 'C10', 'C14', 'C17') else 'E2 pathsym',
            'level_claimed': {'category': 'model_checking', 'text': LEVEL, 'design_ref': 'DESIGN.md ' + c['ref']},
            'level_note': c['note'],
            'technique': c['tech'],
        })
    claimed = set(CHECKS)
    na = list(NOT_APPLICABLE)
    props = [json.loads(l)['id'] for l in open(os.path.join(ROOT, 'properties.jsonl'))]
    for p in props:
        if p not in claimed and p not in [x['property_id'] for x in na]:
            na.append(dict(property_id=p, reason='check not built yet in this session (see DESIGN.md); no claim is made'))
    m = {
        'version': 1,
        'setup_cmd': 'sh scripts/ensure_env.sh',
        'hooks': {
            'guard': 'PY_STRINGSIMJOIN_VERIF',
            'enable': 'no source hooks are needed: harnesses rebind module-level names (pd, Parallel, delayed, pyprind, the four filter_utils functions, gen_token_ordering_for_tables, math names) inside the imported repo modules at run time',
            'baseline_off_cmd': 'cd /repo && /venv/bin/python -m pytest -ra -q -p no:cacheprovider --timeout=900 --continue-on-collection-errors',
            'source_commits': [],
            'add_only': True,
        },
        'engines': [
            {'name': 'E1 numkernel', 'path': 'engine/numkernel', 'serves_properties': ['C01', 'C04', 'C10', 'C14', 'C17'],
             'kind_free_text': 'real arithmetic functions executed on IEEE-754 proxies -> FP-SMT obligations decided by cvc5 1.4.0 and z3 5.1.0'},
            {'name': 'E2 pathsym', 'path': 'engine/pathsym', 'serves_properties': sorted(claimed),
             'kind_free_text': 'path-by-path symbolic execution of the real Python functions on proxy values, every branch a z3 decision, DFS by re-execution, 16 processes'},
        ],
        'checks': checks,
        'not_applicable': na,
        'notes': 'exit 0 = held within bounds, 1 = VIOLATION (replayed on the real stack), 2 = inconclusive (solver unknown, non-reproducing counterexample, model disagreement). Fixes of genuine defects are listed in known_findings.txt.',
    }
    with open(os.path.join(ROOT, 'MANIFEST.json'), 'w') as f:
        json.dump(m, f, indent=1)
    print('manifest: %d checks, %d not applicable' % (len(checks), len(na)))


if __name__ == '__main__':
    main()
