#!/usr/bin/env python3
"""Confirm every seeded change (from /tmp/mut/*.out) against the current /repo HEAD in a scratch worktree:
demo passes on the clean tree, fails with the change, the pinned suite still has its 109 passing tests.
Confirmed ones are stored under /verif/seeded/<id>/ (patch.diff regenerated against HEAD, demo.py, meta.json)."""
import json, os, re, shutil, subprocess, sys

SRC = os.environ.get('SEED_SRC', '/tmp/mut')
TAG = os.environ.get('SEED_TAG', '')       # e.g. 'r2' -> ids C01_r2m1
OUT = '/verif/seeded'
PY = '/venv/bin/python'


def sh(cmd, cwd=None, env=None, timeout=900):
    r = subprocess.run(cmd, shell=True, cwd=cwd, env=env, capture_output=True, text=True, timeout=timeout)
    return r.returncode, (r.stdout + r.stderr)


def main():
    only = sys.argv[1:]
    head = sh('git -C /repo rev-parse --short HEAD')[1].strip()
    os.makedirs(OUT, exist_ok=True)
    for d in sorted(os.listdir(SRC)):
        if not d.endswith('.out'):
            continue
        prop = d[:-4]
        for m in ('m1', 'm2'):
            sid = '%s_%s%s' % (prop, TAG, m)
            if only and sid not in only:
                continue
            mdir = os.path.join(SRC, d, m)
            if not os.path.exists(os.path.join(mdir, 'patch.diff')):
                continue
            w = '/tmp/seedw/%s' % sid
            sh('git -C /repo worktree remove --force %s' % w)
            rc, out = sh('git -C /repo worktree add -q --detach %s HEAD' % w)
            if rc:
                print(sid, 'WORKTREE-FAILED', out[-200:]); continue
            env = dict(os.environ, PYTHONPATH=w, PYTHONDONTWRITEBYTECODE='1')
            demo = os.path.join(mdir, 'demo.py')
            txt = open(demo).read().replace('%s/%s' % (SRC, prop), w)
            dpath = os.path.join(w, '_demo.py')
            open(dpath, 'w').write(txt)
            rc_clean, out_clean = sh('%s _demo.py' % PY, cwd=w, env=env)
            rc_ap, out_ap = sh('git apply -3 %s' % os.path.join(mdir, 'patch.diff'), cwd=w)
            meta = {'id': sid, 'property': prop, 'repo_head': head, 'demo_on_clean_exit': rc_clean}
            if rc_ap:
                meta['status'] = 'patch does not apply to current HEAD'
                print(sid, 'APPLY-FAILED', out_ap[-300:].replace('\n', ' | '))
            else:
                rc_mut, out_mut = sh('%s _demo.py' % PY, cwd=w, env=env)
                os.remove(dpath)
                rc_t, out_t = sh('%s -m pytest -q -p no:cacheprovider --timeout=900 --continue-on-collection-errors 2>&1 | tail -1' % PY, cwd=w, env=env)
                mm = re.search(r'(\d+) passed', out_t)
                passed = int(mm.group(1)) if mm else -1
                rc_d, diff = sh('git diff HEAD', cwd=w)
                meta.update(demo_with_change_exit=rc_mut, tests_passed_with_change=passed,
                            demo_with_change_tail=out_mut[-600:])
                ok = rc_clean == 0 and rc_mut == 1 and passed == 109
                meta['status'] = 'confirmed' if ok else 'not confirmed'
                print(sid, meta['status'], 'clean=%d mutated=%d passed=%d' % (rc_clean, rc_mut, passed))
                if ok:
                    o = os.path.join(OUT, sid)
                    os.makedirs(o, exist_ok=True)
                    open(os.path.join(o, 'patch.diff'), 'w').write(diff)
                    shutil.copy(demo, os.path.join(o, 'demo.py'))
                    notes = os.path.join(mdir, 'notes.md')
                    meta['breaks'] = prop
                    meta['needs_to_manifest'] = open(notes).read()[:3000] if os.path.exists(notes) else ''
                    meta['ran'] = ['demo.py on clean HEAD worktree (exit 0)', 'git apply patch.diff; demo.py (exit 1)',
                                   'pinned pytest command: %d passed' % passed]
                    old = {}
                    mp = os.path.join(o, 'meta.json')
                    if os.path.exists(mp):
                        old = json.load(open(mp))
                    for k in ('caught_by', 'check_runs'):
                        if k in old:
                            meta[k] = old[k]
                    json.dump(meta, open(mp, 'w'), indent=1)
            sh('git -C /repo worktree remove --force %s' % w)
    sh('git -C /repo worktree prune')


if __name__ == '__main__':
    main()
