#!/bin/sh
# Runs every registered check (tier = $1, default quick) against /repo, sequentially; summary in /tmp/w/run_all_<tier>.log
T=${1:-quick}
cd /verif
sh scripts/ensure_env.sh
: > /tmp/w/run_all_$T.log
for c in c01 c02 c03 c04 c05 c06 c07 c08 c09 c10 c11 c12 c13 c14 c15 c17; do
  s=$(date +%s)
  VERIF_SEED=${VERIF_SEED:-1} .venv/bin/python -W ignore checks/$c.py $T > /tmp/w/run_${T}_$c.log 2>&1
  rc=$?
  e=$(date +%s)
  echo "$c exit=$rc wall=$((e-s))s $(grep -c '^VIOLATION' /tmp/w/run_${T}_$c.log) violations $(grep -c '^KNOWN-FINDING' /tmp/w/run_${T}_$c.log) known" >> /tmp/w/run_all_$T.log
done
