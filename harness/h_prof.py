"""H-PROF: the real profile_table_for_join on a table whose per-column counts are symbolic.

`len(table)` = n, `len(table[attr].unique())` = u_attr, `sum(pd.isnull(table[attr]))` = m_attr are
symbolic **bit-vector integers** (W bits) constrained to be realisable (1 <= n <= 2^B, 0 <= m <= n,
the distinct count compatible with m missing values counting as one value).  `float(count)` is the
exact conversion to an IEEE double; the profiler's own float arithmetic (`float(u)/float(n)*100`,
`round(.,2)`) runs on the E1 proxies; its `if`s are pathsym decisions over QF_BVFP terms (fresh
non-incremental z3 per check).  Counting itself (Series.unique / isnull) is pandas and outside the claim.
"""
import z3

from engine import repo
from engine.numkernel import fp
from engine.pathsym import pdmodel
from engine.pathsym.core import SymBool, Violation

KEY_COMMENT = 'This attribute can be used as a key attribute.'
W = 26          # bit width of the counts (values stay below 2^22, no wrap-around)
ZERO = z3.BitVecVal(0, W)
ONE = z3.BitVecVal(1, W)


def _bv(x):
    if isinstance(x, BVInt):
        return x.t
    if isinstance(x, bool):
        return z3.BitVecVal(int(x), W)
    if isinstance(x, int):
        return z3.BitVecVal(x, W)
    return None


class BVInt(object):
    """a Python int carried as a W-bit unsigned bit-vector (counts)."""
    __slots__ = ('t',)

    def __init__(self, t):
        self.t = t

    def _bin(self, o, f):
        ot = _bv(o)
        if ot is None:
            return NotImplemented
        return BVInt(f(self.t, ot))

    def __add__(self, o):
        return self._bin(o, lambda a, b: a + b)

    def __radd__(self, o):
        return self._bin(o, lambda a, b: b + a)

    def __sub__(self, o):
        return self._bin(o, lambda a, b: a - b)

    def __rsub__(self, o):
        return self._bin(o, lambda a, b: b - a)

    def __mul__(self, o):
        if isinstance(o, (float, fp.SymFP)):
            return as_float(self) * o
        return self._bin(o, lambda a, b: a * b)

    __rmul__ = __mul__

    def __truediv__(self, o):
        return as_float(self) / (as_float(o) if isinstance(o, BVInt) else o)

    def __rtruediv__(self, o):
        return o / as_float(self)

    def _cmp(self, o, f):
        ot = _bv(o)
        if ot is None:
            if isinstance(o, (float, fp.SymFP)):
                x = as_float(self)
                return {'lt': x < o, 'le': x <= o, 'gt': x > o, 'ge': x >= o, 'eq': x == o, 'ne': x != o}[f]
            return NotImplemented
        t = {'lt': z3.ULT, 'le': z3.ULE, 'gt': z3.UGT, 'ge': z3.UGE,
             'eq': lambda a, b: a == b, 'ne': lambda a, b: a != b}[f](self.t, ot)
        return SymBool(t)

    def __lt__(self, o):
        return self._cmp(o, 'lt')

    def __le__(self, o):
        return self._cmp(o, 'le')

    def __gt__(self, o):
        return self._cmp(o, 'gt')

    def __ge__(self, o):
        return self._cmp(o, 'ge')

    def __eq__(self, o):
        return self._cmp(o, 'eq')

    def __ne__(self, o):
        return self._cmp(o, 'ne')

    def __hash__(self):
        return id(self)

    def __bool__(self):
        return bool(SymBool(self.t != ZERO))

    def __repr__(self):
        return 'BVInt(%s)' % self.t


def as_float(x):
    """float(count): exact (counts are far below 2^53)."""
    if isinstance(x, BVInt):
        return PFP(z3.fpToFPUnsigned(fp.RNE, x.t, fp.F64), False)
    if isinstance(x, fp.SymFP):
        return PFP(x.t, False)
    return float(x)


class PFP(fp.SymFP):
    """SymFP whose comparisons are pathsym decisions."""
    __slots__ = ()

    def _wrap(self, r):
        return PFP(r.t, r.integral) if isinstance(r, fp.SymFP) else r

    @staticmethod
    def _arg(o):
        return as_float(o) if isinstance(o, BVInt) else o

    def __add__(self, o):
        return self._wrap(fp.SymFP.__add__(self, self._arg(o)))

    def __radd__(self, o):
        return self._wrap(fp.SymFP.__radd__(self, self._arg(o)))

    def __sub__(self, o):
        return self._wrap(fp.SymFP.__sub__(self, self._arg(o)))

    def __rsub__(self, o):
        return self._wrap(fp.SymFP.__rsub__(self, self._arg(o)))

    def __mul__(self, o):
        return self._wrap(fp.SymFP.__mul__(self, self._arg(o)))

    def __rmul__(self, o):
        return self._wrap(fp.SymFP.__rmul__(self, self._arg(o)))

    def __truediv__(self, o):
        return self._wrap(fp.SymFP.__truediv__(self, self._arg(o)))

    def __rtruediv__(self, o):
        return self._wrap(fp.SymFP.__rtruediv__(self, self._arg(o)))

    def __le__(self, o):
        return SymBool(fp.SymFP.__le__(self, self._arg(o)))

    def __lt__(self, o):
        return SymBool(fp.SymFP.__lt__(self, self._arg(o)))

    def __ge__(self, o):
        return SymBool(fp.SymFP.__ge__(self, self._arg(o)))

    def __gt__(self, o):
        return SymBool(fp.SymFP.__gt__(self, self._arg(o)))

    def __eq__(self, o):
        return SymBool(fp.SymFP.__eq__(self, self._arg(o)))

    def __ne__(self, o):
        return SymBool(fp.SymFP.__ne__(self, self._arg(o)))

    def __hash__(self):
        return id(self)


class StrOf(object):
    """str(x) of a symbolic number: kept as a part so the harness can see what was formatted."""

    def __init__(self, v):
        self.v = v


def sym_str(x):
    if isinstance(x, (fp.SymFP, BVInt)):
        return StrOf(x)
    return str(x)


def sym_round(x, k=None):
    if isinstance(x, BVInt):
        return x
    if isinstance(x, fp.SymFP):
        return PFP(fp.sym_round(x, k).t, k is None)
    return round(x) if k is None else round(x, k)


class _Unique(object):
    def __init__(self, u):
        self.u = u


class _Nulls(object):
    def __init__(self, m, col=None, inverted=False):
        self.m = m
        self.col = col
        self.inverted = inverted

    def __invert__(self):
        return _Nulls(self.m, self.col, not self.inverted)


class _DType(object):
    """what the code under test can ask a column's dtype for"""
    NAMES = {'O': 'object', 'f': 'float64', 'i': 'Int64', 'u': 'UInt32', 'M': 'datetime64[ns]', 'S': 'string'}

    def __init__(self, kind):
        self.kind = 'O' if kind == 'S' else kind
        self.name = self.NAMES[kind]

    def __str__(self):
        return self.name

    def __eq__(self, o):
        return o is self or o == self.name or (self.name == 'object' and o is object)

    def __ne__(self, o):
        return not self.__eq__(o)

    def __hash__(self):
        return hash(self.name)


class _Col(object):
    def __init__(self, u, m, kind='O'):
        self.u, self.m, self.kind = u, m, kind
        self.dtype = _DType(kind)

    def as_python_set(self):
        """set(column) / iteration: pandas yields a fresh float NaN object per missing cell of a
        float column (all different set elements); None / NaT / NA are singletons"""
        present = BVInt(z3.If(z3.UGT(self.m.t, ZERO), self.u.t - ONE, self.u.t))
        if self.kind == 'f':
            return _Unique(BVInt(present.t + self.m.t))
        return _Unique(self.u)

    def unique(self):
        return _Unique(self.u)

    def nunique(self, dropna=True):
        d = BVInt(z3.If(z3.UGT(self.m.t, ZERO), self.u.t - ONE, self.u.t))
        return d if dropna else self.u

    def isnull(self):
        return _Nulls(self.m, self)

    isna = isnull

    def notnull(self):
        return _Nulls(self.m, self, True)

    notna = notnull

    def dropna(self):
        return self[self.notnull()]

    def __getitem__(self, mask):
        """column[~isnull] -> the non-missing values (u - [m>0] distinct, none missing);
        column[isnull] -> only the missing values"""
        if isinstance(mask, _Nulls) and mask.col is self:
            if mask.inverted:
                return _Col(self.nunique(True), BVInt(ZERO), self.kind)
            return _Col(BVInt(z3.If(z3.UGT(self.m.t, ZERO), ONE, ZERO)), self.m, self.kind)
        raise KeyError(mask)


class ProfTable(pdmodel.FakeFrame):
    """A frame of which only the counts are known."""

    def __init__(self, cols, n, counts, kinds=None):
        pdmodel.FakeFrame.__init__(self, [], columns=cols)
        self.n = n
        self.counts = counts
        self.kinds = kinds or {}

    def __getitem__(self, key):
        if isinstance(key, str) and key in self.counts:
            return _Col(*self.counts[key], kind=self.kinds.get(key, 'O'))
        raise KeyError(key)


def sym_len(x):
    if isinstance(x, ProfTable):
        return x.n
    if isinstance(x, _Unique):
        return x.u
    return len(x)


def sym_sum(x, *a):
    if isinstance(x, _Nulls):
        if x.inverted:
            raise TypeError('sum of an inverted mask is not modelled')
        return x.m
    return sum(x, *a)


def sym_set(x=()):
    if isinstance(x, _Col):
        return x.as_python_set()
    return set(x)


def _bool_choice(c, name, options):
    options = list(options)
    while len(options) > 1:
        half = len(options) // 2
        if bool(c.bool_var(name)):
            options = options[:half]
        else:
            options = options[half:]
    return options[0]


def sym_max(*a):
    if len(a) == 2 and any(isinstance(v, BVInt) for v in a):
        # decided on the path (like Python's own max would): keeps the chosen operand as is
        x, y = _bv(a[0]), _bv(a[1])
        return a[0] if SymBool(z3.UGE(x, y)) else a[1]
    return max(*a)


class _PdProf(pdmodel.PdModule):
    @staticmethod
    def isnull(x):
        if isinstance(x, _Col):
            return x.isnull()
        return pdmodel.isnull(x)

    isna = isnull

    @staticmethod
    def notnull(x):
        if isinstance(x, _Col):
            return x.notnull()
        return pdmodel.notnull(x)


def make(cfg):
    B = cfg.get('B', 16)
    attrs = cfg.get('attrs', ['a', 'b'])
    profile_attrs = cfg.get('profile_attrs', [None])

    def h(c):
        type(c).fresh_mode = True
        prof = repo.mod('profiler.profiler')
        n = BVInt(z3.BitVec(c.fresh_name('n'), W))
        c._assert(z3.And(z3.UGE(n.t, ONE), z3.ULE(n.t, z3.BitVecVal(2 ** B, W))))
        counts = {}
        for a in attrs:
            u = BVInt(z3.BitVec(c.fresh_name('u_' + a), W))
            m = BVInt(z3.BitVec(c.fresh_name('m_' + a), W))
            nm = n.t - m.t                                  # non-missing rows
            has_m = z3.UGT(m.t, ZERO)
            dist_nm = z3.If(has_m, u.t - ONE, u.t)
            c._assert(z3.And(z3.ULE(m.t, n.t), z3.ULE(u.t, n.t), z3.Implies(has_m, z3.UGE(u.t, ONE)),
                             z3.ULE(dist_nm, nm),
                             z3.If(z3.UGT(nm, ZERO), z3.UGE(dist_nm, ONE), dist_nm == ZERO)))
            counts[a] = (u, m)
        kinds = {}
        if cfg.get('kinds'):
            for a in attrs:
                kinds[a] = _bool_choice(c, 'kind_' + a, cfg['kinds'])
        table = ProfTable(attrs, n, counts, kinds)
        pa = profile_attrs[int(c.int_var('pa', 0, len(profile_attrs) - 1))] if len(profile_attrs) > 1 \
            else profile_attrs[0]
        want_attrs = list(attrs) if pa is None else list(pa)
        b = dict(repo.model_bindings())
        b.update({('profiler.profiler', 'pd'): _PdProf, ('profiler.profiler', 'len'): sym_len,
                  ('profiler.profiler', 'sum'): sym_sum, ('profiler.profiler', 'float'): as_float,
                  ('profiler.profiler', 'round'): sym_round, ('profiler.profiler', 'max'): sym_max,
                  ('profiler.profiler', 'str'): sym_str, ('profiler.profiler', 'set'): sym_set})
        fp.begin_side()
        real_fmt = prof._format_statistic
        seen_fmt = []

        def spy_format(stat, pct):
            seen_fmt.append((stat, pct))
            try:
                return real_fmt(stat, pct)
            except TypeError:
                return '<<count %d and its percentage>>' % (len(seen_fmt) - 1)
        b[('profiler.profiler', '_format_statistic')] = spy_format

        def detail(clause, msg, a):
            def mk(mdl):
                def val(x):
                    return mdl.eval(x.t, model_completion=True).as_long()
                return {'prop': 'C17', 'clause': clause, 'msg': msg, 'harness': 'h_prof',
                        'site': 'profile_table_for_join',
                        'n': val(n), 'attr': a, 'u': val(counts[a][0]), 'm': val(counts[a][1]),
                        'profile_attrs': pa, 'kind': kinds.get(a, 'O')}
            return mk
        with repo.patched(b):
            try:
                out = prof.profile_table_for_join(table, pa)
            except Violation:
                raise
            except Exception as e:
                msg = 'valid call raised %s: %s' % (type(e).__name__, e)
                raise Violation(msg, detail('call-succeeds', msg, attrs[0]))
        if not isinstance(out, pdmodel.FakeFrame):
            raise Violation('not a frame', detail('returns-frame', 'result is %r' % type(out), attrs[0]))
        if list(out.index) != want_attrs or list(out.columns) != ['Unique values', 'Missing values',
                                                                 'Comments']:
            msg = 'rows indexed by %r with columns %r; expected one row per profiled attribute %r' % (
                list(out.index), list(out.columns), want_attrs)
            raise Violation('C17/shape: ' + msg, detail('shape', msg, (want_attrs or attrs)[0]))
        nf = z3.fpToFPUnsigned(fp.RNE, n.t, fp.F64)
        for i, a in enumerate(want_attrs):
            u, m = counts[a]
            row = out._rows[i]
            comment = row[2]
            is_key = (comment == KEY_COMMENT)
            warns = isinstance(comment, str) and comment.startswith('Joining on this attribute will ignore')
            got = seen_fmt[2 * i:2 * i + 2]
            if len(got) != 2:
                raise Violation('C17/format', detail('format', 'statistics not formatted', a))
            for (gs, gp), x in zip(got, (u, m)):
                # the count first (bit-vectors, cheap), then the percentage
                if isinstance(gs, BVInt):
                    same_count = SymBool(gs.t == x.t)
                elif isinstance(gs, fp.SymFP):
                    same_count = SymBool(z3.fpEQ(gs.t, z3.fpToFPUnsigned(fp.RNE, x.t, fp.F64)))
                else:
                    same_count = SymBool(z3.BitVecVal(int(gs), W) == x.t)
                if not same_count:
                    msg = 'a reported count is not the exact count'
                    raise Violation('C17/format: ' + msg, detail('format', msg, a))
                xf = z3.fpToFPUnsigned(fp.RNE, x.t, fp.F64)
                want = fp.round_k(z3.fpMul(fp.RNE, z3.fpDiv(fp.RNE, xf, nf), fp.fpval(100.0)), 2)
                if isinstance(gp, fp.SymFP) and z3.simplify(gp.t).eq(z3.simplify(want)):
                    continue          # syntactically the documented expression
                gpt = z3.fpToFPUnsigned(fp.RNE, gp.t, fp.F64) if isinstance(gp, BVInt) else fp.lift(gp)
                if not SymBool(z3.fpEQ(gpt, want)):
                    msg = 'a reported percentage is not the 2-decimal percentage of the exact count'
                    raise Violation('C17/format: ' + msg, detail('format', msg, a))
            key_ok = SymBool(z3.And(u.t == n.t, m.t == ZERO))
            has_missing = SymBool(z3.UGT(m.t, ZERO))
            if is_key:
                if not key_ok:
                    msg = 'attribute recommended as key although not all values are distinct and present'
                    raise Violation('C17/key-comment: ' + msg, detail('key-comment', msg, a))
            else:
                if key_ok:
                    msg = 'all values distinct and none missing, but the attribute is not recommended as key'
                    raise Violation('C17/key-comment: ' + msg, detail('key-comment', msg, a))
            if warns:
                if not has_missing:
                    msg = 'ignored-rows warning although no value is missing'
                    raise Violation('C17/missing-comment: ' + msg, detail('missing-comment', msg, a))
            elif not is_key:
                if has_missing:
                    msg = 'at least one value is missing but there is no ignored-rows warning'
                    raise Violation('C17/missing-comment: ' + msg, detail('missing-comment', msg, a))
        tags = ['attrs=%d' % len(want_attrs)]
        from . import tracecheck
        if B <= 12 and tracecheck.maybe_validate(c, 'h_prof', detail('trace-validation', '-', (want_attrs or attrs)[0]),
                                                 cfg.get('validate_every', 5), 'C17'):
            tags.append('validated')
        return {'nontrivial': True, 'tags': tags, 'sample': None}

    return h
