"""H-PROF: the real profile_table_for_join on a table whose per-column counts are symbolic.

`len(table)` = n, `len(table[attr].unique())` = u_attr, `sum(pd.isnull(table[attr]))` = m_attr are
integral IEEE doubles constrained to be realisable (1 <= n <= 2^B, 0 <= m <= n, the distinct count
compatible with m missing values counting as one value).  The profiler's own float arithmetic
(`float(u)/float(n)*100`, `round(.,2)`) runs on the E1 proxies; its `if`s are pathsym decisions over
the FP terms.  Counting itself (Series.unique / isnull) is pandas and outside the claim.
"""
import z3

from engine import repo
from engine.numkernel import fp
from engine.pathsym import pdmodel
from engine.pathsym.core import SymBool, Violation, ctx

KEY_COMMENT = 'This attribute can be used as a key attribute.'


class PFP(fp.SymFP):
    """SymFP whose comparisons are pathsym decisions."""
    __slots__ = ()

    def _wrap(self, r):
        return PFP(r.t, r.integral) if isinstance(r, fp.SymFP) else r

    def __add__(self, o):
        return self._wrap(fp.SymFP.__add__(self, o))

    def __radd__(self, o):
        return self._wrap(fp.SymFP.__radd__(self, o))

    def __sub__(self, o):
        return self._wrap(fp.SymFP.__sub__(self, o))

    def __rsub__(self, o):
        return self._wrap(fp.SymFP.__rsub__(self, o))

    def __mul__(self, o):
        return self._wrap(fp.SymFP.__mul__(self, o))

    def __rmul__(self, o):
        return self._wrap(fp.SymFP.__rmul__(self, o))

    def __truediv__(self, o):
        return self._wrap(fp.SymFP.__truediv__(self, o))

    def __rtruediv__(self, o):
        return self._wrap(fp.SymFP.__rtruediv__(self, o))

    def __le__(self, o):
        return SymBool(fp.SymFP.__le__(self, o))

    def __lt__(self, o):
        return SymBool(fp.SymFP.__lt__(self, o))

    def __ge__(self, o):
        return SymBool(fp.SymFP.__ge__(self, o))

    def __gt__(self, o):
        return SymBool(fp.SymFP.__gt__(self, o))

    def __eq__(self, o):
        return SymBool(fp.SymFP.__eq__(self, o))

    def __ne__(self, o):
        return SymBool(fp.SymFP.__ne__(self, o))

    def __hash__(self):
        return id(self)


class StrOf(object):
    """str(x) of a symbolic number: kept as a part so the harness can see what was formatted."""

    def __init__(self, v):
        self.v = v


class Parts(object):
    """''.join([...]) result with symbolic parts."""

    def __init__(self, parts):
        self.parts = parts


class _Joiner(object):
    pass


def sym_str(x):
    if isinstance(x, fp.SymFP):
        return StrOf(x)
    return str(x)


class _Unique(object):
    def __init__(self, u):
        self.u = u


class _Nulls(object):
    def __init__(self, m, col=None, inverted=False):
        self.m = m
        self.col = col
        self.inverted = inverted

    def __invert__(self):
        return _Nulls(self.m, self.col, not self.inverted)


class _Col(object):
    def __init__(self, u, m, n=None):
        self.u, self.m, self.n = u, m, n

    def unique(self):
        return _Unique(self.u)

    def isnull(self):
        return _Nulls(self.m, self)

    def notnull(self):
        return _Nulls(self.m, self, True)

    def dropna(self):
        return self[self.notnull()]

    def __getitem__(self, mask):
        """column[~isnull] -> the non-missing values: u - [m>0] distinct, no missing;
        column[isnull] -> only missing values"""
        if isinstance(mask, _Nulls) and mask.col is self:
            zero = PFP(fp.fpval(0.0), True)
            if mask.inverted:
                d = PFP(z3.If(z3.fpGT(self.m.t, fp.fpval(0.0)), z3.fpSub(fp.RNE, self.u.t, fp.fpval(1.0)), self.u.t), True)
                return _Col(d, zero)
            one_or_zero = PFP(z3.If(z3.fpGT(self.m.t, fp.fpval(0.0)), fp.fpval(1.0), fp.fpval(0.0)), True)
            return _Col(one_or_zero, self.m)
        raise KeyError(mask)


class ProfTable(pdmodel.FakeFrame):
    """A frame of which only the counts are known."""

    def __init__(self, cols, n, counts):
        pdmodel.FakeFrame.__init__(self, [], columns=cols)
        self.n = n
        self.counts = counts

    def __getitem__(self, key):
        if isinstance(key, str) and key in self.counts:
            return _Col(*self.counts[key])
        raise KeyError(key)


def sym_len(x):
    if isinstance(x, ProfTable):
        return x.n
    if isinstance(x, _Unique):
        return x.u
    return len(x)


def sym_sum(x, *a):
    if isinstance(x, _Nulls):
        if x.inverted:
            raise TypeError('sum of an inverted mask is not modelled')
        return x.m
    return sum(x, *a)


class _PdProf(pdmodel.PdModule):
    @staticmethod
    def isnull(x):
        if isinstance(x, _Col):
            return x.isnull()
        return pdmodel.isnull(x)


def _flatten(x):
    """the profiler builds strings with ''.join([...]); our parts survive because join is patched
    through a str subclass trick: we intercept at _format_statistic level instead."""
    return x


def make(cfg):
    B = cfg.get('B', 16)
    attrs = cfg.get('attrs', ['a', 'b'])
    profile_attrs = cfg.get('profile_attrs', [None])

    def h(c):
        type(c).fresh_mode = True
        prof = repo.mod('profiler.profiler')
        n = PFP(z3.FP(c.fresh_name('n'), fp.F64), True)
        c.names[str(n.t)] = n.t
        top = float(2 ** B)
        c._assert(z3.And(z3.fpGEQ(n.t, fp.fpval(1.0)), z3.fpLEQ(n.t, fp.fpval(top)),
                         z3.fpEQ(z3.fpRoundToIntegral(fp.RNE, n.t), n.t)))
        counts = {}
        for a in attrs:
            u = PFP(z3.FP(c.fresh_name('u_' + a), fp.F64), True)
            m = PFP(z3.FP(c.fresh_name('m_' + a), fp.F64), True)
            for v in (u, m):
                c._assert(z3.fpEQ(z3.fpRoundToIntegral(fp.RNE, v.t), v.t))
            nm = z3.fpSub(fp.RNE, n.t, m.t)                      # non-missing rows (exact)
            has_m = z3.fpGT(m.t, fp.fpval(0.0))
            dist_nm = z3.If(has_m, z3.fpSub(fp.RNE, u.t, fp.fpval(1.0)), u.t)
            c._assert(z3.And(z3.fpGEQ(m.t, fp.fpval(0.0)), z3.fpLEQ(m.t, n.t),
                             z3.fpLEQ(dist_nm, nm),
                             z3.If(z3.fpGT(nm, fp.fpval(0.0)), z3.fpGEQ(dist_nm, fp.fpval(1.0)),
                                   z3.fpEQ(dist_nm, fp.fpval(0.0)))))
            counts[a] = (u, m)
        table = ProfTable(attrs, n, counts)
        pa = profile_attrs[int(c.int_var('pa', 0, len(profile_attrs) - 1))] if len(profile_attrs) > 1 \
            else profile_attrs[0]
        want_attrs = list(attrs) if pa is None else list(pa)
        formatted = []

        def fmt(stat, pct):
            formatted.append((stat, pct))
            return ('STAT', len(formatted) - 1)

        class JoinStr(str):
            pass
        b = dict(repo.model_bindings())
        b.update({('profiler.profiler', 'pd'): _PdProf, ('profiler.profiler', 'len'): sym_len,
             ('profiler.profiler', 'sum'): sym_sum, ('profiler.profiler', 'float'): fp.sym_float,
             ('profiler.profiler', 'round'): lambda x, k=None: PFP(fp.sym_round(x, k).t)
             if isinstance(x, fp.SymFP) else round(x, k),
             ('profiler.profiler', 'str'): sym_str})
        fp.begin_side()
        real_fmt = prof._format_statistic
        seen_fmt = []

        def spy_format(stat, pct):
            seen_fmt.append((stat, pct))
            try:
                return real_fmt(stat, pct)
            except TypeError:
                return '<<count %d and its percentage>>' % (len(seen_fmt) - 1)
        b[('profiler.profiler', '_format_statistic')] = spy_format

        def detail(clause, msg, a):
            def mk(mdl):
                def val(x):
                    return fp.fp_to_float(mdl.eval(x.t, model_completion=True))
                return {'prop': 'C17', 'clause': clause, 'msg': msg, 'harness': 'h_prof',
                        'site': 'profile_table_for_join',
                        'n': int(val(n)), 'attr': a, 'u': int(val(counts[a][0])),
                        'm': int(val(counts[a][1]))}
            return mk
        with repo.patched(b):
            try:
                out = prof.profile_table_for_join(table, pa)
            except Violation:
                raise
            except Exception as e:
                msg = 'valid call raised %s: %s' % (type(e).__name__, e)
                raise Violation(msg, detail('call-succeeds', msg, attrs[0]))
        if not isinstance(out, pdmodel.FakeFrame):
            raise Violation('not a frame', detail('returns-frame', 'result is %r' % type(out), attrs[0]))
        if list(out.index) != want_attrs or list(out.columns) != ['Unique values', 'Missing values',
                                                                 'Comments']:
            msg = 'rows indexed by %r with columns %r; expected one row per profiled attribute %r' % (
                list(out.index), list(out.columns), want_attrs)
            raise Violation('C17/shape: ' + msg, detail('shape', msg, want_attrs[0]))
        for i, a in enumerate(want_attrs):
            u, m = counts[a]
            row = out._rows[i]
            comment = row[2]
            is_key = (comment == KEY_COMMENT)
            warns = isinstance(comment, str) and comment.startswith('Joining on this attribute will ignore') \
                or (not isinstance(comment, str))
            if not isinstance(comment, str):
                warns = True          # built from symbolic parts => the warning branch
                is_key = False
            # the formatted statistics must be (u, round(u/n*100,2)) and (m, round(m/n*100,2))
            mine = [(x, PFP(fp.round_k(z3.fpMul(fp.RNE, z3.fpDiv(fp.RNE, x.t, n.t), fp.fpval(100.0)), 2)))
                    for x in (u, m)]
            got = seen_fmt[2 * i:2 * i + 2]
            if len(got) != 2:
                raise Violation('C17/format', detail('format', 'statistics not formatted', a))
            for (gs, gp), (ws, wp) in zip(got, mine):
                if isinstance(gs, fp.SymFP) and isinstance(gp, fp.SymFP) and gs.t.eq(ws.t) and \
                        z3.simplify(gp.t).eq(z3.simplify(wp.t)):
                    continue          # syntactically the expected terms
                # two separate decisions: the count first (cheap), the percentage only afterwards
                if not (isinstance(gs, fp.SymFP) and gs.t.eq(ws.t)):
                    if not SymBool(z3.fpEQ(fp.lift(gs), ws.t)):
                        msg = 'a reported count is not the exact count'
                        raise Violation('C17/format: ' + msg, detail('format', msg, a))
                if not (isinstance(gp, fp.SymFP) and z3.simplify(gp.t).eq(z3.simplify(wp.t))):
                    if not SymBool(z3.fpEQ(fp.lift(gp), wp.t)):
                        msg = 'a reported percentage is not the 2-decimal percentage of the exact count'
                        raise Violation('C17/format: ' + msg, detail('format', msg, a))
            key_ok = SymBool(z3.And(z3.fpEQ(u.t, n.t), z3.fpEQ(m.t, fp.fpval(0.0))))
            has_missing = SymBool(z3.fpGT(m.t, fp.fpval(0.0)))
            if is_key:
                if not key_ok:
                    msg = 'attribute recommended as key although not all values are distinct and present'
                    raise Violation('C17/key-comment: ' + msg, detail('key-comment', msg, a))
            else:
                if key_ok:
                    msg = 'all values distinct and none missing, but the attribute is not recommended as key'
                    raise Violation('C17/key-comment: ' + msg, detail('key-comment', msg, a))
            if warns and not is_key:
                if not has_missing:
                    msg = 'ignored-rows warning although no value is missing'
                    raise Violation('C17/missing-comment: ' + msg, detail('missing-comment', msg, a))
            else:
                if has_missing:
                    msg = 'at least one value is missing but there is no ignored-rows warning'
                    raise Violation('C17/missing-comment: ' + msg, detail('missing-comment', msg, a))
        return {'nontrivial': True, 'tags': ['attrs=%d' % len(want_attrs)], 'sample': None}

    return h
