"""Relational harnesses without an external oracle.

make_pipeline (C07): a join vs filter_tables followed by apply_matcher on the same symbolic tables.
make_laws (C13): transposition, threshold refinement, operator partition of the joins.
Both run the public entry points over the pandas model (real token ordering, real kernel at
concrete thresholds)."""
import operator

from engine import repo
from engine.pathsym import pdmodel, symdata
from engine.pathsym.core import Violation, model_value
from . import h_join, oracle, ref, scenario, tracecheck

OPS = ref.OPS
_SIM = {'JACCARD': 'Jaccard', 'COSINE': 'Cosine', 'DICE': 'Dice',
        'OVERLAP_COEFFICIENT': 'OverlapCoefficient'}


def raw_sim_function(measure):
    if measure == 'OVERLAP':
        return repo.mod('utils.simfunctions').overlap
    import py_stringmatching as sm
    return getattr(sm, _SIM[measure])().get_raw_score


def _base_scenario(c, cfg, entry, measure):
    tok_mode = True
    Lt = scenario.build_table(c, 'L', cfg['nl'], cfg['k'], cfg.get('kmin', 0), cfg.get('missing', False),
                              False, False)
    Rt = scenario.build_table(c, 'R', cfg['nr'], cfg['k'], cfg.get('kmin', 0), cfg.get('missing', False),
                              False, False)
    s = dict(entry=entry, filter=None, measure=measure, kind='join',
             threshold=None, comp_op='>=', allow_empty=symdata.choice(c, 'ae', cfg.get('allow_empty', [True])),
             allow_missing=False, out_sim_score=True, n_jobs=symdata.choice(c, 'nj', cfg.get('n_jobs', [1])),
             l_key='id', r_key='id', l_attr='attr', r_attr='attr', l_out_attrs=None, r_out_attrs=None,
             l_out_prefix='l_', r_out_prefix='r_', tok_return_set=tok_mode)
    s['L'], s['R'] = scenario.table_dict(Lt), scenario.table_dict(Rt)
    return s, Lt, Rt


def _run(s, Lt, Rt):
    tok = symdata.AbsTok(return_set=True)
    out = scenario.call_entry(s, Lt.frame(), Rt.frame(), tok)
    return oracle.Result.of(out)


def _pairs(res):
    """{(lkey, rkey): score} of a join result with columns _id, l_id, r_id, _sim_score"""
    d = {}
    for r in res.rows:
        d[(r[1], r[2])] = r[3] if len(r) > 3 else None
    return d


def _cells(Lt, Rt):
    l = dict((r[0], r[1]) for r in Lt.rows)
    r = dict((r[0], r[1]) for r in Rt.rows)
    return l, r


def make_pipeline(cfg):
    entry = cfg['entry']
    measure = scenario.JOIN_MEASURE[entry]
    first = cfg['first']            # filter class name used as first stage

    def h(c):
        s, Lt, Rt = _base_scenario(c, cfg, entry, measure)
        s['threshold'] = symdata.choice(c, 'thr', cfg['thresholds'])
        s['comp_op'] = symdata.choice(c, 'op', cfg.get('comp_ops', ['>=']))
        nj2 = symdata.choice(c, 'nj2', cfg.get('n_jobs', [1]))
        w = scenario.SymWorld()
        lcell, rcell = _cells(Lt, Rt)

        def detail(clause, msg):
            def mk(mdl):
                sc = dict(s)
                return {'prop': 'C07', 'clause': clause, 'msg': msg, 'harness': 'h_pipe', 'first': first,
                        'n_jobs2': nj2, 'scenario': scenario.concretize_scenario(sc, mdl)}
            return mk
        with repo.patched(h_join.bindings()):
            try:
                J = _pairs(_run(s, Lt, Rt))
                tok = symdata.AbsTok(return_set=True)
                ssj = repo.mod('')
                if first == 'OverlapFilter':
                    f = ssj.OverlapFilter(tok, 1)
                else:
                    fm = measure if measure in ('JACCARD', 'COSINE', 'DICE', 'OVERLAP') else 'JACCARD'
                    f = getattr(ssj, first)(tok, fm, s['threshold'], s['allow_empty'])
                cand = f.filter_tables(Lt.frame(), Rt.frame(), 'id', 'id', 'attr', 'attr', n_jobs=nj2,
                                       show_progress=False)
                M = repo.mod('').apply_matcher(cand, 'l_id', 'r_id', Lt.frame(), Rt.frame(), 'id', 'id',
                                               'attr', 'attr', tok, raw_sim_function(measure),
                                               s['threshold'], s['comp_op'], n_jobs=nj2, show_progress=False)
                P = _pairs(oracle.Result.of(M))
            except Violation:
                raise
            except Exception as e:
                msg = 'valid call raised %s: %s' % (type(e).__name__, e)
                raise Violation(msg, detail('call-succeeds', msg))
        rounded = measure in ('JACCARD', 'COSINE', 'DICE')
        for lk, lc in lcell.items():
            for rk, rc in rcell.items():
                lt, rt = w.tokset(lc), w.tokset(rc)
                n, m = len(lt), len(rt)
                if n == 0 and m == 0:
                    continue                    # excluded: governed by allow_empty (C09)
                o = ref.overlap_size(lt, rt)
                if n and m:
                    raw, rep = ref.raw_score(measure, n, m, o), ref.reported_score(measure, n, m, o)
                    f_ = OPS[s['comp_op']]
                    if bool(f_(raw, s['threshold'])) != bool(f_(rep, s['threshold'])):
                        continue                # excluded: raw and rounded straddle the threshold
                pk = (lk, rk)
                if (pk in J) != (pk in P):
                    msg = 'pair %r is %s the %s result but %s the %s+apply_matcher result' % (
                        pk, 'in' if pk in J else 'not in', entry, 'in' if pk in P else 'not in', first)
                    raise Violation('C07/same-pairs: ' + msg, detail('same-pairs', msg))
                if pk in J:
                    a, b = J[pk], P[pk]
                    bb = round(b, 4) if rounded else b
                    aa = round(a, 4) if rounded else a
                    if not (aa == bb):
                        msg = 'pair %r: join score %r, pipeline score %r' % (pk, a, b)
                        raise Violation('C07/same-score: ' + msg, detail('same-score', msg))
        tags = ['pairs=%d' % len(J)]
        if tracecheck.maybe_validate(c, 'h_pipe', detail('trace-validation', '-'), cfg.get('validate_every', 250), 'C07'):
            tags.append('validated')
        return {'nontrivial': len(J) > 0, 'tags': tags, 'sample': None}

    return h


def make_laws(cfg):
    entry = cfg['entry']
    measure = scenario.JOIN_MEASURE[entry]
    law = cfg['law']                # 'transpose' | 'refine' | 'partition'

    def h(c):
        s, Lt, Rt = _base_scenario(c, cfg, entry, measure)
        w = scenario.SymWorld()
        lcell, rcell = _cells(Lt, Rt)

        def excluded(lk, rk, thresholds, ops):
            lt, rt = w.tokset(lcell[lk]), w.tokset(rcell[rk])
            n, m = len(lt), len(rt)
            if n == 0 and m == 0:
                return True
            if n and m:
                o = ref.overlap_size(lt, rt)
                raw, rep = ref.raw_score(measure, n, m, o), ref.reported_score(measure, n, m, o)
                for t in thresholds:
                    for op in ops:
                        if bool(OPS[op](raw, t)) != bool(OPS[op](rep, t)):
                            return True
            return False
        s2 = dict(s)

        def detail(clause, msg):
            def mk(mdl):
                return {'prop': 'C13', 'clause': clause, 'msg': msg, 'harness': 'h_laws', 'law': law,
                        'scenario': scenario.concretize_scenario(s, mdl),
                        'scenario2': scenario.concretize_scenario(s2, mdl)}
            return mk
        with repo.patched(h_join.bindings()):
            try:
                if law == 'transpose':
                    s['threshold'] = s2['threshold'] = symdata.choice(c, 'thr', cfg['thresholds'])
                    s['comp_op'] = s2['comp_op'] = symdata.choice(c, 'op', cfg.get('comp_ops', ['>=']))
                    s2['L'], s2['R'] = s['R'], s['L']
                    A = _pairs(_run(s, Lt, Rt))
                    B = _pairs(_run(s2, Rt, Lt))
                    Bt = dict(((b, a), v) for (a, b), v in B.items())
                    for lk in lcell:
                        for rk in rcell:
                            pk = (lk, rk)
                            if excluded(lk, rk, [s['threshold']], [s['comp_op']]):
                                continue
                            if (pk in A) != (pk in Bt) or (pk in A and not (A[pk] == Bt[pk])):
                                msg = 'pair %r: join(A,B) gives %r, join(B,A) gives %r' % (pk, A.get(pk, 'absent'), Bt.get(pk, 'absent'))
                                raise Violation('C13/transpose: ' + msg, detail('transpose', msg))
                    nontriv = len(A) > 0
                elif law == 'refine':
                    t1, t2 = symdata.choice(c, 'thrpair', cfg['threshold_pairs'])
                    s['threshold'], s2['threshold'] = t1, t2      # t1 laxer, t2 stricter
                    if measure == 'EDIT_DISTANCE':
                        pass
                    A = _pairs(_run(s, Lt, Rt))
                    B = _pairs(_run(s2, Lt, Rt))
                    for lk in lcell:
                        for rk in rcell:
                            pk = (lk, rk)
                            if excluded(lk, rk, [t1, t2], ['>=']):
                                continue
                            want = pk in A and bool(A[pk] >= t2)
                            if (pk in B) != want or (pk in B and not (B[pk] == A[pk])):
                                msg = 'pair %r: at threshold %r %r, at threshold %r %r' % (
                                    pk, t1, A.get(pk, 'absent'), t2, B.get(pk, 'absent'))
                                raise Violation('C13/refine: ' + msg, detail('refine', msg))
                    nontriv = len(A) > 0
                else:
                    s['threshold'] = symdata.choice(c, 'thr', cfg['thresholds'])
                    res = {}
                    for op in ('>=', '>', '='):
                        sx = dict(s, comp_op=op)
                        res[op] = _pairs(_run(sx, Lt, Rt))
                    s2 = dict(s, comp_op='>')
                    for lk in lcell:
                        for rk in rcell:
                            pk = (lk, rk)
                            if excluded(lk, rk, [s['threshold']], ['>=', '>', '=']):
                                continue
                            ge, gt, eq = pk in res['>='], pk in res['>'], pk in res['=']
                            if ge != (gt or eq) or (gt and eq):
                                msg = "pair %r: in '>=' %r, in '>' %r, in '=' %r" % (pk, ge, gt, eq)
                                raise Violation('C13/partition: ' + msg, detail('partition', msg))
                    nontriv = len(res['>=']) > 0
            except Violation:
                raise
            except Exception as e:
                msg = 'valid call raised %s: %s' % (type(e).__name__, e)
                raise Violation(msg, detail('call-succeeds', msg))
        tags = []
        if tracecheck.maybe_validate(c, 'h_laws', detail('trace-validation', '-'), cfg.get('validate_every', 150), 'C13'):
            tags.append('validated')
        return {'nontrivial': nontriv, 'tags': tags, 'sample': None}

    return h


def make_transpose_core(cfg):
    """Transposition on the per-split function under the arbitrary global token order (the API-level
    harness can only realise frequency-induced orders on tiny tables): set_sim_join(L, R) vs
    set_sim_join(R, L), real kernel at a threshold grid."""
    from . import h_core
    measure = cfg['measure']

    def h(c):
        k = cfg['k']
        Lt = scenario.build_table(c, 'L', cfg['nl'], k, cfg.get('kmin', 1), False, False, False)
        Rt = scenario.build_table(c, 'R', cfg['nr'], k, cfg.get('kmin', 1), False, False, False)
        thr = symdata.choice(c, 'thr', cfg['thresholds'])
        op = symdata.choice(c, 'op', cfg.get('comp_ops', ['>=']))
        s = dict(entry='set_sim_join', filter=None, measure=measure, kind='join', threshold=thr, comp_op=op,
                 allow_empty=True, allow_missing=False, out_sim_score=True, n_jobs=1, l_key='id', r_key='id',
                 l_attr='attr', r_attr='attr', l_out_attrs=None, r_out_attrs=None, l_out_prefix='l_',
                 r_out_prefix='r_', tok_return_set=True, L=scenario.table_dict(Lt), R=scenario.table_dict(Rt))
        s2 = dict(s, L=s['R'], R=s['L'])
        tok = symdata.AbsTok(return_set=True)
        b = dict(h_core.base_bindings())
        for m in h_core.ORDER_USERS:
            b[(m, 'gen_token_ordering_for_tables')] = h_core._identity_ordering
        cols = ['id', 'attr', 'x', 'y']
        fn = repo.mod('join.set_sim_join').set_sim_join

        def detail(msg):
            def mk(mdl):
                return {'prop': 'C13', 'clause': 'transpose', 'msg': msg, 'harness': 'h_laws', 'law': 'transpose',
                        'order': 'identity', 'scenario': scenario.concretize_scenario(dict(s, entry=MEASURE_JOIN[measure]), mdl),
                        'scenario2': scenario.concretize_scenario(dict(s2, entry=MEASURE_JOIN[measure]), mdl)}
            return mk
        with repo.patched(b):
            try:
                A = fn(list(Lt.rows), list(Rt.rows), cols, cols, 'id', 'id', 'attr', 'attr', tok, measure, thr, op,
                       True, None, None, 'l_', 'r_', True, False)
                B = fn(list(Rt.rows), list(Lt.rows), cols, cols, 'id', 'id', 'attr', 'attr', tok, measure, thr, op,
                       True, None, None, 'l_', 'r_', True, False)
            except Exception as e:
                msg = 'valid call raised %s: %s' % (type(e).__name__, e)
                raise Violation(msg, detail(msg))
        A = dict(((r[0], r[1]), r[2]) for r in oracle.Result.of(A).rows)
        B = dict(((r[1], r[0]), r[2]) for r in oracle.Result.of(B).rows)
        w = scenario.SymWorld()
        lcell, rcell = _cells(Lt, Rt)
        for lk in lcell:
            for rk in rcell:
                lt, rt = w.tokset(lcell[lk]), w.tokset(rcell[rk])
                n, m = len(lt), len(rt)
                if n == 0 and m == 0:
                    continue
                if n and m:
                    o = ref.overlap_size(lt, rt)
                    raw, rep = ref.raw_score(measure, n, m, o), ref.reported_score(measure, n, m, o)
                    if bool(OPS[op](raw, thr)) != bool(OPS[op](rep, thr)):
                        continue
                pk = (lk, rk)
                if (pk in A) != (pk in B) or (pk in A and not (A[pk] == B[pk])):
                    msg = 'pair %r: join(A,B) gives %r, join(B,A) gives %r' % (pk, A.get(pk, 'absent'), B.get(pk, 'absent'))
                    raise Violation('C13/transpose: ' + msg, detail(msg))
        return {'nontrivial': len(A) > 0, 'tags': [], 'sample': None}

    return h


MEASURE_JOIN = {'JACCARD': 'jaccard_join', 'COSINE': 'cosine_join', 'DICE': 'dice_join'}
