"""H-ED: edit-distance join and the filters under EDIT_DISTANCE on symbolic strings (SymStr) with the
REAL QgramTokenizer, real frequency token ordering, real PrefixIndex / PrefixFilter, real integer
kernel; the compiled Levenshtein is replaced by a reference DP (z3 ite terms)."""
import z3
from py_stringmatching.tokenizer.qgram_tokenizer import QgramTokenizer

from engine import repo
from engine.pathsym import pdmodel, symdata
from engine.pathsym.core import SymBool, SymInt, Violation, model_value
from engine.pathsym.symstr import SymStr, levenshtein_ref, levenshtein_term
from . import h_join, oracle, ref, scenario, tracecheck

DEFAULTS = dict(entry='ed_join', nl=1, nr=1, minlen=0, maxlen=3, q=[2], padding=[True],
                return_set=[False], taus=[1], comp_ops=['<='], missing=False, allow_missing=[False],
                out_sim_score=[True], n_jobs=[1], filter=None, props=None, lens=None, alphabet=None,
                validate_every=200)
CHAR_LO, CHAR_HI = 33, 0x24F
_COUNTER = [0]


def sym_string(c, name, minlen, maxlen, lens=None, alphabet=None):
    if lens is not None:
        n = symdata.choice(c, name + '.len', lens)
    else:
        n = int(c.int_var(name + '.len', minlen, maxlen)) if minlen < maxlen else maxlen
    if alphabet:
        # small-alphabet mode: every character is one of `alphabet` shared symbolic letters
        # (strings with many repeated q-grams at lengths the unrestricted mode cannot reach)
        base = c.notes.get('alphabet')
        if base is None:
            base = [c.int_var('letter%d' % i, CHAR_LO, CHAR_HI, token=True) for i in range(alphabet)]
            for i in range(len(base)):
                for j in range(i + 1, len(base)):
                    c._assert(base[i].t != base[j].t)
            c.notes['alphabet'] = base
        chars = []
        for i in range(n):
            ch = c.int_var('%s.c%d' % (name, i), CHAR_LO, CHAR_HI, token=True)
            c._assert(z3.Or(*[ch.t == b.t for b in base]))
            chars.append(ch)
        return SymStr(chars)
    return SymStr([c.int_var('%s.c%d' % (name, i), CHAR_LO, CHAR_HI, token=True) for i in range(n)])


def _sim_stub(measure):
    return levenshtein_ref


def make(cfg_in):
    cfg = dict(DEFAULTS)
    cfg.update(cfg_in)
    props = set(cfg['props']) if cfg['props'] else None

    def h(c):
        q = symdata.choice(c, 'q', cfg['q'])
        padding = symdata.choice(c, 'pad', cfg['padding'])
        rs = symdata.choice(c, 'rs', cfg['return_set'])
        tau = symdata.choice(c, 'tau', cfg['taus'])
        op = symdata.choice(c, 'op', cfg['comp_ops'])
        tok = QgramTokenizer(qval=q, padding=padding, return_set=rs)
        lrows, rrows = [], []
        for i in range(cfg['nl']):
            miss = c.bool_var('L%d.miss' % i) if cfg['missing'] == 'sym' else False
            v = None if (miss is not False and bool(miss)) else sym_string(
                c, 'L%d' % i, cfg['minlen'], cfg['maxlen'], cfg.get('lens_l') or cfg['lens'], cfg['alphabet'])
            lrows.append((1 + i, v, 'L%d.x' % i, 'L%d.y' % i))
        for i in range(cfg['nr']):
            miss = c.bool_var('R%d.miss' % i) if cfg['missing'] == 'sym' else False
            v = None if (miss is not False and bool(miss)) else sym_string(
                c, 'R%d' % i, cfg['minlen'], cfg['maxlen'], cfg.get('lens_r') or cfg['lens'], cfg['alphabet'])
            if i in (cfg.get('concrete_rows_r') or {}):
                v = SymStr.lift(cfg['concrete_rows_r'][i])     # a fixed context row
            rrows.append((11 + i, v, 'R%d.x' % i, 'R%d.y' % i))
        cols = ['id', 'attr', 'x', 'y']
        s = dict(entry=cfg['entry'], filter=cfg['filter'], measure='EDIT_DISTANCE', threshold=tau,
                 comp_op=op, allow_missing=symdata.choice(c, 'am', cfg['allow_missing']),
                 out_sim_score=symdata.choice(c, 'oss', cfg['out_sim_score']),
                 n_jobs=symdata.choice(c, 'nj', cfg['n_jobs']), q=q, padding=padding, return_set=rs,
                 allow_empty=True, l_key='id', r_key='id', l_attr='attr', r_attr='attr',
                 l_out_attrs=None, r_out_attrs=None, l_out_prefix='l_', r_out_prefix='r_',
                 warmup_q=cfg.get('warmup_q'),
                 L={'columns': cols, 'rows': lrows, 'index': list(range(len(lrows)))},
                 R={'columns': cols, 'rows': rrows, 'index': list(range(len(rrows)))})

        def detail(prop, clause, msg):
            def mk(mdl):
                d = {'prop': prop, 'clause': clause, 'msg': msg, 'harness': 'h_ed',
                     'scenario': concretize(s, mdl)}
                if cfg.get('filter') == 'SuffixFilter' and cfg['entry'] == 'filter_pair' and clause == 'safe':
                    try:
                        d['subclass'] = _suffix_pair_subclass_ed(d['scenario'])
                    except Exception:
                        pass
                return d
            return mk

        b = dict(h_join.bindings())
        b[('join.edit_distance_join_py', 'get_sim_function')] = _sim_stub
        bagtok = QgramTokenizer(qval=q, padding=padding, return_set=False)

        def shares(a, bb):
            ta, tb = bagtok.tokenize(a), bagtok.tokenize(bb)
            for x in ta:
                for y in tb:
                    if x == y:
                        return True
            return False

        entry = cfg['entry']
        viols = []
        with repo.patched(b):
            try:
                if entry in ('ed_join', 'ed_split'):
                    if entry == 'ed_join':
                        Lf = pdmodel.FakeFrame(lrows, columns=cols)
                        Rf = pdmodel.FakeFrame(rrows, columns=cols)
                        if cfg.get('warmup_q'):
                            # an earlier call in the same process with another q-gram size: its result is
                            # irrelevant, the call under test must not be affected by it (C12)
                            repo.mod('').edit_distance_join(
                                pdmodel.FakeFrame(lrows, columns=cols), pdmodel.FakeFrame(rrows, columns=cols),
                                'id', 'id', 'attr', 'attr', tau, '<=', False, None, None, 'l_', 'r_', True, 1,
                                False, QgramTokenizer(qval=cfg['warmup_q'], padding=padding, return_set=False))
                        if cfg.get('default_tok'):
                            # the default q-gram tokenizer object shared by all calls that omit the argument
                            ed_mod = repo.mod('join.edit_distance_join')
                            shared = [ed_mod.edit_distance_join.__defaults__[-1],
                                      repo.mod('join.edit_distance_join_py').edit_distance_join_py.__defaults__[-1]]
                            before = [(t.get_return_set(), t.qval, t.padding) for t in shared]
                            out = repo.mod('').edit_distance_join(
                                Lf, Rf, 'id', 'id', 'attr', 'attr', tau, op, s['allow_missing'], None, None,
                                'l_', 'r_', s['out_sim_score'], s['n_jobs'], False)
                            after = [(t.get_return_set(), t.qval, t.padding) for t in shared]
                            if before != after or before[0] != (False, 2, True):
                                viols.append(('C12', 'default-tokenizer', 'the shared default tokenizer changed: %r -> %r'
                                              % (before, after)))
                        else:
                            out = repo.mod('').edit_distance_join(
                                Lf, Rf, 'id', 'id', 'attr', 'attr', tau, op, s['allow_missing'], None, None,
                                'l_', 'r_', s['out_sim_score'], s['n_jobs'], False, tok)
                        off = 1
                    else:
                        lr = [r for r in lrows if r[1] is not None]
                        rr = [r for r in rrows if r[1] is not None]
                        tok.set_return_set(False)
                        out = repo.mod('join.edit_distance_join_py')._edit_distance_join_split(
                            lr, rr, cols, cols, 'id', 'id', 'attr', 'attr', tok, tau, op, None, None,
                            'l_', 'r_', s['out_sim_score'], False)
                        tok.set_return_set(rs)
                        off = 0
                    res = oracle.Result.of(out)
                    header, _, _ = oracle.expected_header(s, with_id=(entry == 'ed_join'))
                    if res.columns != header:
                        viols.append(('C11', 'header', 'columns %r expected %r' % (res.columns, header)))
                    else:
                        if entry == 'ed_join' and [int(x) for x in res.col('_id')] != list(range(len(res.rows))):
                            viols.append(('C10', '_id', '_id column is %r' % (res.col('_id'),)))
                        seen = {}
                        for r in res.rows:
                            pk = (r[off], r[off + 1])
                            seen[pk] = seen.get(pk, 0) + 1
                            lrow = [x for x in lrows if x[0] == pk[0]]
                            rrow = [x for x in rrows if x[0] == pk[1]]
                            if not lrow or not rrow:
                                viols.append(('C03', 'keys-exist', 'row %r names unknown keys' % (r,)))
                                continue
                            lv, rv = lrow[0][1], rrow[0][1]
                            if lv is None or rv is None:
                                if not s['allow_missing']:
                                    viols.append(('C08', 'no-missing-rows', 'missing pair %r returned' % (pk,)))
                                elif s['out_sim_score'] and not ref.is_nan(r[-1]):
                                    viols.append(('C08', 'nan-score', 'missing pair %r has score %r' % (pk, r[-1])))
                                continue
                            if seen[pk] > 1:
                                viols.append(('C03', 'duplicate', 'pair %r returned %d times' % (pk, seen[pk])))
                            d = levenshtein_ref(lv, rv)
                            if not ref.OPS[op](d, tau):
                                viols.append(('C03', 'sound', 'pair %r returned but its edit distance does '
                                              'not satisfy %s %d' % (pk, op, tau)))
                            if s['out_sim_score'] and not (r[-1] == d):
                                viols.append(('C03', 'score', 'pair %r has _sim_score %r which is not its '
                                              'edit distance' % (pk, r[-1])))
                        for lrow in lrows:
                            for rrow in rrows:
                                pk = (lrow[0], rrow[0])
                                lv, rv = lrow[1], rrow[1]
                                if lv is None or rv is None:
                                    if s['allow_missing'] and pk not in seen and entry == 'ed_join':
                                        viols.append(('C08', 'missing-pair-present', 'missing pair %r absent' % (pk,)))
                                    continue
                                if pk in seen:
                                    continue
                                d = levenshtein_ref(lv, rv)
                                if ref.OPS[op](d, tau) and shares(lv, rv):
                                    viols.append(('C03', 'complete', 'pair %r satisfies %s %d and shares a '
                                                  'q-gram but is absent' % (pk, op, tau)))
                                elif padding and ref.OPS[op](d, tau) and \
                                        max(len(lv), len(rv)) >= q * tau - q + 2:
                                    viols.append(('C03', 'corollary', 'padding on, pair %r satisfies %s %d and '
                                                  'max length %d >= q*tau-q+2 = %d but is absent'
                                                  % (pk, op, tau, max(len(lv), len(rv)), q * tau - q + 2)))
                    if tok.get_return_set() != rs:
                        viols.append(('C12', 'tokenizer-restored', 'tokenizer return_set %r after the call, was %r'
                                      % (tok.get_return_set(), rs)))
                    nontriv = len(res.rows) > 0
                elif entry == 'filter_pair':
                    tok.set_return_set(False)
                    cls = getattr(repo.mod(''), cfg['filter'])
                    f = cls(tok, 'EDIT_DISTANCE', tau)
                    lv, rv = lrows[0][1], rrows[0][1]
                    dropped = bool(f.filter_pair(lv, rv))
                    d = levenshtein_ref(lv, rv)
                    if dropped and (d <= tau) and shares(lv, rv):
                        viols.append(('C04', 'safe', '%s(EDIT_DISTANCE,%d).filter_pair drops a pair within '
                                      'the threshold that shares a q-gram' % (cfg['filter'], tau)))
                    if cfg['filter'] == 'SizeFilter':
                        nl_, nr_ = len(bagtok.tokenize(lv)), len(bagtok.tokenize(rv))
                        if (nl_ or nr_) and dropped != (abs(nl_ - nr_) > tau):
                            viols.append(('C14', 'ed-size-window', 'SizeFilter(EDIT_DISTANCE,%d) dropped=%r '
                                          'for q-gram counts %d and %d' % (tau, dropped, nl_, nr_)))
                    nontriv = True
                elif entry == 'filter_split':
                    tok.set_return_set(False)
                    cls = getattr(repo.mod(''), cfg['filter'])
                    f = cls(tok, 'EDIT_DISTANCE', tau)
                    modname = {'SizeFilter': 'filter.size_filter', 'PrefixFilter': 'filter.prefix_filter',
                               'PositionFilter': 'filter.position_filter',
                               'SuffixFilter': 'filter.suffix_filter'}[cfg['filter']]
                    out = repo.mod(modname)._filter_tables_split(lrows, rrows, cols, cols, 'id', 'id', 'attr',
                                                                 'attr', f, None, None, 'l_', 'r_', False)
                    res = oracle.Result.of(out)
                    seen = set((r[0], r[1]) for r in res.rows)
                    if cfg['filter'] == 'SizeFilter':
                        for lrow in lrows:
                            for rrow in rrows:
                                nl_, nr_ = len(bagtok.tokenize(lrow[1])), len(bagtok.tokenize(rrow[1]))
                                pk = (lrow[0], rrow[0])
                                if (nl_ or nr_) and (pk in seen) != (abs(nl_ - nr_) <= tau) and nl_ and nr_:
                                    viols.append(('C14', 'ed-size-window', 'SizeFilter(EDIT_DISTANCE,%d).filter_tables '
                                                  '%s pair %r with q-gram counts %d and %d' % (
                                                      tau, 'lists' if pk in seen else 'drops', pk, nl_, nr_)))
                    for lrow in lrows:
                        for rrow in rrows:
                            pk = (lrow[0], rrow[0])
                            if pk in seen:
                                if cfg['filter'] in ('PositionFilter', 'SizeFilter') and cfg.get('size_subset'):
                                    nl_, nr_ = len(bagtok.tokenize(lrow[1])), len(bagtok.tokenize(rrow[1]))
                                    if abs(nl_ - nr_) > tau and cfg['filter'] == 'PositionFilter':
                                        viols.append(('C14', 'position-subset', 'PositionFilter keeps pair %r '
                                                      'whose q-gram counts %d, %d differ by more than %d (SizeFilter '
                                                      'drops it)' % (pk, nl_, nr_, tau)))
                                continue
                            d = levenshtein_ref(lrow[1], rrow[1])
                            if (d <= tau) and shares(lrow[1], rrow[1]):
                                viols.append(('C04', 'complete', '%s(EDIT_DISTANCE,%d).filter_tables drops '
                                              'pair %r within the threshold that shares a q-gram'
                                              % (cfg['filter'], tau, pk)))
                    nontriv = len(res.rows) > 0
                else:
                    raise ValueError(entry)
            except Violation:
                raise
            except Exception as e:
                import traceback
                msg = 'valid call raised %s: %s' % (type(e).__name__, e)
                raise Violation(msg, detail('CRASH', 'call-succeeds', msg + ' ' + traceback.format_exc()[-400:]))
        for (p, clause, msg) in viols:
            if props is None or p in props:
                raise Violation('%s/%s: %s' % (p, clause, msg), detail(p, clause, msg))
        _COUNTER[0] += 1
        sample = None
        if _COUNTER[0] <= 2:
            sample = detail('-', '-', '-')(c.get_model())
        tags = []
        if entry != 'ed_split' and not cfg.get('default_tok'):
            vp = (props and sorted(props - {'CRASH'})[0]) or 'C03'
            if tracecheck.maybe_validate(c, 'h_ed', detail(vp, 'trace-validation', '-'), cfg['validate_every'], vp):
                tags.append('validated')
        return {'nontrivial': nontriv, 'tags': tags, 'sample': sample}

    return h


def concretize(s, mdl):
    out = {}
    for k, v in s.items():
        if k in ('L', 'R'):
            rows = []
            for r in v['rows']:
                rr = []
                for x in r:
                    if isinstance(x, SymStr):
                        rr.append(''.join(chr(model_value(mdl, ch) if isinstance(ch, SymInt) else ch)
                                          for ch in x.chars))
                    else:
                        rr.append(model_value(mdl, x))
                rows.append(rr)
            out[k] = {'columns': v['columns'], 'rows': rows, 'index': v['index']}
        else:
            out[k] = model_value(mdl, v)
    return out


# ---- relational harnesses for the edit-distance join (C07 / C13) --------------------------------

def _ed_tables(c, cfg):
    cols = ['id', 'attr', 'x', 'y']
    lrows = [(1 + i, sym_string(c, 'L%d' % i, cfg['minlen'], cfg['maxlen'], cfg.get('lens_l') or cfg['lens'], cfg.get('alphabet')),
              'L%d.x' % i, 'L%d.y' % i) for i in range(cfg['nl'])]
    rrows = [(11 + i, sym_string(c, 'R%d' % i, cfg['minlen'], cfg['maxlen'], cfg.get('lens_r') or cfg['lens'], cfg.get('alphabet')),
              'R%d.x' % i, 'R%d.y' % i) for i in range(cfg['nr'])]
    return cols, lrows, rrows


def _ed_join(lrows, rrows, cols, tau, op, tok, n_jobs=1):
    out = repo.mod('').edit_distance_join(
        pdmodel.FakeFrame(lrows, columns=cols), pdmodel.FakeFrame(rrows, columns=cols), 'id', 'id', 'attr',
        'attr', tau, op, False, None, None, 'l_', 'r_', True, n_jobs, False, tok)
    return dict(((r[1], r[2]), r[3]) for r in oracle.Result.of(out).rows)


def make_rel(cfg_in):
    """law: 'transpose' | 'refine' | 'partition' | 'pipeline' on the edit-distance join."""
    cfg = dict(DEFAULTS)
    cfg.update(cfg_in)
    law = cfg['law']

    def h(c):
        q = symdata.choice(c, 'q', cfg['q'])
        padding = symdata.choice(c, 'pad', cfg['padding'])
        tok = QgramTokenizer(qval=q, padding=padding, return_set=False)
        bagtok = QgramTokenizer(qval=q, padding=padding, return_set=False)
        cols, lrows, rrows = _ed_tables(c, cfg)
        tau = symdata.choice(c, 'tau', cfg['taus'])
        s = dict(entry='ed_join', filter=None, measure='EDIT_DISTANCE', threshold=tau, comp_op='<=',
                 allow_missing=False, out_sim_score=True, n_jobs=1, q=q, padding=padding, return_set=False,
                 allow_empty=True, l_key='id', r_key='id', l_attr='attr', r_attr='attr', law=law,
                 L={'columns': cols, 'rows': lrows, 'index': list(range(len(lrows)))},
                 R={'columns': cols, 'rows': rrows, 'index': list(range(len(rrows)))})

        def detail(msg):
            def mk(mdl):
                return {'prop': cfg['props'][0], 'clause': law, 'msg': msg, 'harness': 'h_ed_rel', 'law': law,
                        'tau2': cfg.get('tau2'), 'scenario': concretize(s, mdl)}
            return mk

        def shares(a, bb):
            for x in bagtok.tokenize(a):
                for y in bagtok.tokenize(bb):
                    if x == y:
                        return True
            return False
        b = dict(h_join.bindings())
        b[('join.edit_distance_join_py', 'get_sim_function')] = _sim_stub
        bad = None
        with repo.patched(b):
            try:
                A = _ed_join(lrows, rrows, cols, tau, '<=', tok)
                if law == 'transpose':
                    B = _ed_join(rrows, lrows, cols, tau, '<=', tok)
                    Bt = dict(((y, x), v) for (x, y), v in B.items())
                    for pk in set(A) | set(Bt):
                        if (pk in A) != (pk in Bt) or (pk in A and not (A[pk] == Bt[pk])):
                            bad = 'pair %r: join(A,B) %r, join(B,A) %r' % (pk, A.get(pk, 'absent'), Bt.get(pk, 'absent'))
                elif law == 'refine':
                    t2 = cfg['tau2']
                    B = _ed_join(lrows, rrows, cols, t2, '<=', tok)         # t2 < tau: stricter
                    for pk in set(A) | set(B):
                        want = pk in A and bool(A[pk] <= t2)
                        lv = [r for r in lrows if r[0] == pk[0]][0][1]
                        rv = [r for r in rrows if r[0] == pk[1]][0][1]
                        if (pk in B) != want and shares(lv, rv):
                            bad = 'pair %r: at threshold %d %r, at threshold %d %r' % (pk, tau, A.get(pk, 'absent'), t2, B.get(pk, 'absent'))
                        if pk in B and pk in A and not (A[pk] == B[pk]):
                            bad = 'pair %r scores differ: %r vs %r' % (pk, A[pk], B[pk])
                elif law == 'partition':
                    LT = _ed_join(lrows, rrows, cols, tau, '<', tok)
                    EQ = _ed_join(lrows, rrows, cols, tau, '=', tok)
                    for pk in set(A) | set(LT) | set(EQ):
                        if (pk in A) != ((pk in LT) or (pk in EQ)) or (pk in LT and pk in EQ):
                            bad = "pair %r: in '<=' %r, in '<' %r, in '=' %r" % (pk, pk in A, pk in LT, pk in EQ)
                else:   # pipeline: PrefixFilter(EDIT_DISTANCE).filter_tables + apply_matcher(Levenshtein)
                    ssj = repo.mod('')
                    f = ssj.PrefixFilter(tok, 'EDIT_DISTANCE', tau)
                    Lf, Rf = pdmodel.FakeFrame(lrows, columns=cols), pdmodel.FakeFrame(rrows, columns=cols)
                    cand = f.filter_tables(Lf, Rf, 'id', 'id', 'attr', 'attr', show_progress=False)
                    M = ssj.apply_matcher(cand, 'l_id', 'r_id', Lf, Rf, 'id', 'id', 'attr', 'attr', None,
                                          levenshtein_ref, tau, '<=', show_progress=False)
                    P = dict(((r[1], r[2]), r[3]) for r in oracle.Result.of(M).rows)
                    for pk in A:
                        if pk not in P or not (P[pk] == A[pk]):
                            bad = 'pair %r is in the join (%r) but the pipeline gives %r' % (pk, A[pk], P.get(pk, 'absent'))
                    for pk in P:
                        lv = [r for r in lrows if r[0] == pk[0]][0][1]
                        rv = [r for r in rrows if r[0] == pk[1]][0][1]
                        if pk not in A and shares(lv, rv):
                            bad = 'pair %r shares a q-gram, is in the pipeline result but not in the join' % (pk,)
            except Violation:
                raise
            except Exception as e:
                bad = 'valid call raised %s: %s' % (type(e).__name__, e)
        if bad:
            raise Violation('%s/%s: %s' % (cfg['props'][0], law, bad), detail(bad))
        return {'nontrivial': len(A) > 0, 'tags': [], 'sample': None}

    return h


def _suffix_pair_subclass_ed(sc):
    """Classify a SuffixFilter(EDIT_DISTANCE).filter_pair miss on the concrete witness, with the real
    tokenizer, the real pair-level token ordering and the real prefix lengths: is there a shared q-gram
    lying in the prefix of one record and in the suffix of the other?  (Same predicate as
    h_pair._suffix_pair_subclass - the recorded known finding.)"""
    fu = repo.mod('filter.filter_utils')
    to = repo.mod('utils.token_ordering')
    tok = QgramTokenizer(qval=sc['q'], padding=sc['padding'], return_set=sc['return_set'])
    ai = sc['L']['columns'].index('attr')
    lt = tok.tokenize(sc['L']['rows'][0][ai])
    rt = tok.tokenize(sc['R']['rows'][0][sc['R']['columns'].index('attr')])
    order = to.gen_token_ordering_for_lists([lt, rt])
    lo = to.order_using_token_ordering(lt, order)
    ro = to.order_using_token_ordering(rt, order)
    pl_l = fu.get_prefix_length(len(lt), 'EDIT_DISTANCE', sc['threshold'], tok)
    pl_r = fu.get_prefix_length(len(rt), 'EDIT_DISTANCE', sc['threshold'], tok)
    for i, a in enumerate(lo):
        for j, b_ in enumerate(ro):
            if a == b_ and ((i < pl_l) != (j < pl_r)):
                return 'shared-token-in-prefix-of-one-suffix-of-other'
    return 'other'
