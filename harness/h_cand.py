"""H-CAND: apply_matcher (C05) and Filter.filter_candset (C06) on symbolic candidate sets over the
pandas model: uninterpreted similarity / uninterpreted filter behaviour, symbolic key references,
missing flags, n_jobs, index labels."""
import z3

from engine import repo
from engine.pathsym import pdmodel, symdata
from engine.pathsym.core import SymBool, SymInt, Violation, model_value
from . import h_join, oracle, ref, scenario, tracecheck

DEFAULTS = dict(mode='matcher', nl=2, nr=2, ncand=[2, 3], k=1, kmin=0, missing='sym',
                tokenizer=[True, False], comp_ops=['>=', '>', '<=', '<', '=', '!='],
                allow_missing=[False, True], out_sim_score=[True, False],
                out_attrs=[(None, None), (['x'], ['y', 'attr'])], n_jobs=[1, 2],
                cand_index=[None], extra_col=[False, True], filter=None, measure='JACCARD',
                thresholds=[0.5], props=None, bound_method=[False, True], cpu_count=None,
                validate_every=150)

_COUNTER = [0]


class UninterpretedSim(object):
    """similarity function about which nothing is known: a fresh integer per (left value, right
    value) pair; records what it was called with."""

    def __init__(self, c, expect_tokens):
        self.c = c
        self.memo = {}
        self.cells = {}
        self.expect_tokens = expect_tokens
        self.bad_args = []

    def _cell(self, v):
        if isinstance(v, symdata.TokList):
            if not self.expect_tokens:
                self.bad_args.append('tokens passed although tokenizer=None')
            return v.cell
        if isinstance(v, symdata.Cell):
            if self.expect_tokens:
                self.bad_args.append('raw value passed although a tokenizer was given')
            return v
        self.bad_args.append('unexpected argument %r' % (v,))
        return None

    def score(self, a, b):
        ca, cb = self._cell(a), self._cell(b)
        key = (id(ca), id(cb))
        if key not in self.memo:
            v = self.c.int_var('sim', -3, 3)
            # it is a function of the values: equal contents give equal scores
            for (ka, kb), (xa, xb, xv) in self.cells.items():
                self.c._assert(z3.Implies(z3.And(content_eq(ca, xa), content_eq(cb, xb)), v.t == xv.t))
            self.memo[key] = v
            self.cells[key] = (ca, cb, v)
        return self.memo[key]

    def __call__(self, a, b):
        return self.score(a, b)

    def value_for(self, ca, cb):
        return self.memo.get((id(ca), id(cb)))


def content_eq(a, b):
    """z3 term: the two cells hold the same string (same tokens, same emptiness)."""
    if a is b:
        return z3.BoolVal(True)
    from engine.pathsym.core import as_int_term, as_bool_term
    na, nb = as_int_term(a.ntok), as_int_term(b.ntok)
    parts = [na == nb, as_bool_term(a.nonempty) == as_bool_term(b.nonempty)]
    for i in range(min(a.k, b.k)):
        parts.append(z3.Implies(na > i, a.toks[i].t == b.toks[i].t))
    return z3.And(*parts)


def make(cfg_in):
    cfg = dict(DEFAULTS)
    cfg.update(cfg_in)
    props = set(cfg['props']) if cfg['props'] else None

    def h(c):
        mode = cfg['mode']
        Lt = scenario.build_table(c, 'L', cfg['nl'], cfg['k'], cfg['kmin'], cfg['missing'], False, False)
        Rt = scenario.build_table(c, 'R', cfg['nr'], cfg['k'], cfg['kmin'], cfg.get('missing_r', cfg['missing']),
                                  False, False)
        ncand = symdata.choice(c, 'ncand', cfg['ncand'])
        extra = symdata.choice(c, 'extracol', cfg['extra_col'])
        cidx = symdata.choice(c, 'candindex', cfg['cand_index'])
        lkeys = [r[0] for r in Lt.rows]
        rkeys = [r[0] for r in Rt.rows]
        crows = []
        for i in range(ncand):
            li = int(c.int_var('cl%d' % i, 0, len(lkeys) - 1))
            ri = int(c.int_var('cr%d' % i, 0, len(rkeys) - 1))
            row = (100 + i, lkeys[li], rkeys[ri]) + (('e%d' % i,) if extra else ())
            crows.append(row)
        ccols = ['_id', 'l_id', 'r_id'] + (['note'] if extra else [])
        index = list(cidx[:ncand]) if cidx else list(range(ncand))
        cand = pdmodel.FakeFrame(crows, columns=ccols, index=index)
        n_jobs = symdata.choice(c, 'nj', cfg['n_jobs'])
        s = dict(mode=mode, n_jobs=n_jobs, L=scenario.table_dict(Lt), R=scenario.table_dict(Rt),
                 cand={'columns': ccols, 'rows': crows, 'index': index})
        Lf, Rf = Lt.frame(), Rt.frame()
        snaps = (Lf.snapshot(), Rf.snapshot(), cand.snapshot())
        lrow = dict((r[0], r) for r in Lt.rows)
        rrow = dict((r[0], r) for r in Rt.rows)
        w = scenario.SymWorld()
        b = dict(h_join.bindings())
        if cfg['cpu_count']:
            import types
            ncpu = c.int_var('ncpu', 1, cfg['cpu_count'])
            b[('utils.generic_helper', 'multiprocessing')] = types.SimpleNamespace(cpu_count=lambda: ncpu)

        def detail(prop, clause, msg):
            def mk(mdl):
                d = {'prop': prop, 'clause': clause, 'msg': msg, 'harness': 'h_cand',
                     'scenario': scenario.concretize_scenario(s, mdl)}
                if mode == 'matcher':
                    d['sim_table'] = [[lk, rk, model_value(mdl, sim.value_for(lrow[lk][1], rrow[rk][1]))]
                                      for lk in lkeys for rk in rkeys
                                      if sim.value_for(lrow[lk][1], rrow[rk][1]) is not None]
                else:
                    d['drop_table'] = [[lk, rk, model_value(mdl, v)] for (lk, rk), v in drops.items()]
                return d
            return mk

        if mode == 'matcher':
            use_tok = symdata.choice(c, 'usetok', cfg['tokenizer'])
            tok = symdata.AbsTok(return_set=True) if use_tok else None
            sim = UninterpretedSim(c, use_tok)
            fn = sim.score if symdata.choice(c, 'bound', cfg['bound_method']) else sim
            lo, ro = symdata.choice(c, 'outattrs', cfg['out_attrs'])
            s.update(comp_op=symdata.choice(c, 'op', cfg['comp_ops']),
                     allow_missing=symdata.choice(c, 'am', cfg['allow_missing']),
                     out_sim_score=symdata.choice(c, 'oss', cfg['out_sim_score']),
                     threshold=c.int_var('thr', -2, 2), use_tokenizer=use_tok,
                     l_out_attrs=list(lo) if lo is not None else None,
                     r_out_attrs=list(ro) if ro is not None else None,
                     l_key='id', r_key='id', l_out_prefix='l_', r_out_prefix='r_')
            with repo.patched(b):
                try:
                    out = repo.mod('').apply_matcher(
                        cand, 'l_id', 'r_id', Lf, Rf, 'id', 'id', 'attr', 'attr', tok, fn,
                        s['threshold'], s['comp_op'], s['allow_missing'], s['l_out_attrs'],
                        s['r_out_attrs'], 'l_', 'r_', s['out_sim_score'], n_jobs, False)
                except Violation:
                    raise
                except Exception as e:
                    msg = 'valid call raised %s: %s' % (type(e).__name__, e)
                    raise Violation(msg, detail('CRASH', 'call-succeeds', msg))
            res = oracle.Result.of(out)
            viols = []
            if sim.bad_args:
                viols.append(('C05', 'sim-arguments', sim.bad_args[0]))
            header, lo2, ro2 = oracle.expected_header(s)
            exp = []
            for row in crows:
                lr, rr = lrow[row[1]], rrow[row[2]]
                lv, rv = lr[1], rr[1]
                if w.missing(lv) or w.missing(rv):
                    if not s['allow_missing']:
                        continue
                    score = float('nan')
                else:
                    score = sim.value_for(lv, rv)
                    if score is None:
                        score = sim.score(tok.tokenize(lv), tok.tokenize(rv)) if use_tok else sim.score(lv, rv)
                        sim.bad_args = []
                    if not ref.OPS[s['comp_op']](score, s['threshold']):
                        continue
                e = [row[0], row[1], row[2]]
                e += [lr[Lt.columns.index(a)] for a in lo2]
                e += [rr[Rt.columns.index(a)] for a in ro2]
                if s['out_sim_score']:
                    e.append(score)
                exp.append(tuple(e))
            if res.columns != header and len(crows):
                viols.append(('C05', 'header', 'columns %r, expected %r' % (res.columns, header)))
            elif not _rows_equal(res.rows, exp):
                viols.append(('C05', 'rows', 'apply_matcher returned %r, expected exactly %r (in candset '
                              'order, original _id, score = value returned by sim_function)'
                              % (res.rows, exp)))
        else:
            # filter_candset with an uninterpreted filter (decides every filter behaviour at once)
            # or a real filter
            drops = {}
            fmod = repo.mod('filter.filter')

            class AnyFilter(fmod.Filter):
                def filter_pair(self_, lv, rv):
                    key = None
                    for lk in lkeys:
                        for rk in rkeys:
                            if lrow[lk][1] is lv and rrow[rk][1] is rv:
                                key = (lk, rk)
                    if key is None:
                        raise Violation('filter_pair called with values that are not the referenced '
                                        'pair', detail('C06', 'values', 'wrong values'))
                    if key not in drops:
                        drops[key] = c.bool_var('drop')
                    return drops[key]
            s.update(filter=cfg['filter'] or 'AnyFilter', measure=cfg['measure'], comp_op='>=',
                     allow_empty=True, allow_missing=symdata.choice(c, 'am', cfg['allow_missing']),
                     threshold=symdata.choice(c, 'thr', cfg['thresholds']), tok_return_set=True)
            tok = symdata.AbsTok(return_set=True)
            with repo.patched(b):
                try:
                    if cfg['filter']:
                        f = scenario.make_filter(s, tok)
                    else:
                        f = AnyFilter(s['allow_missing'])
                    out = f.filter_candset(cand, 'l_id', 'r_id', Lf, Rf, 'id', 'id', 'attr', 'attr',
                                           n_jobs, False)
                    exp, exp_idx = [], []
                    for row, lab in zip(crows, index):
                        lv, rv = lrow[row[1]][1], rrow[row[2]][1]
                        if not f.filter_pair(lv, rv):
                            exp.append(row)
                            exp_idx.append(lab)
                except Violation:
                    raise
                except Exception as e:
                    msg = 'valid call raised %s: %s' % (type(e).__name__, e)
                    raise Violation(msg, detail('CRASH', 'call-succeeds', msg))
            res = oracle.Result.of(out)
            viols = []
            if res.columns != ccols:
                viols.append(('C06', 'columns', 'columns %r, candset has %r' % (res.columns, ccols)))
            elif not _rows_equal(res.rows, exp) or list(res.index) != exp_idx:
                viols.append(('C06', 'rows', 'filter_candset returned rows %r index %r, expected the '
                              'sub-table %r index %r' % (res.rows, list(res.index), exp, exp_idx)))
        if (Lf.snapshot(), Rf.snapshot(), cand.snapshot()) != snaps or Lf.mutations or Rf.mutations \
                or cand.mutations:
            viols.append(('C12', 'inputs-untouched', 'an input frame was modified'))
        for (p, clause, msg) in viols:
            if props is None or p in props:
                raise Violation('%s/%s: %s' % (p, clause, msg), detail(p, clause, msg))
        _COUNTER[0] += 1
        sample = None
        if _COUNTER[0] <= 2:
            sample = detail('-', '-', '-')(c.get_model())
        tags = ['rows=%d' % len(exp)]
        if tracecheck.maybe_validate(c, 'h_cand', detail('-', 'trace-validation', '-'), cfg['validate_every'],
                                     'C05' if mode == 'matcher' else 'C06'):
            tags.append('validated')
        return {'nontrivial': len(exp) > 0, 'tags': tags, 'sample': sample}

    return h


def _rows_equal(a, b):
    if len(a) != len(b):
        return False
    for ra, rb in zip(a, b):
        if len(ra) != len(rb):
            return False
        for x, y in zip(ra, rb):
            if not h_join._veq(x, y):
                return False
    return True
