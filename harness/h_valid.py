"""H-VALID (C15): every entry point x every documented precondition violated, in an otherwise valid
symbolic context; and degenerate but valid shapes are accepted.  Over the pandas model."""
import z3
from py_stringmatching.tokenizer.qgram_tokenizer import QgramTokenizer

from engine import repo
from engine.pathsym import pdmodel, symdata
from engine.pathsym.core import SymInt, Violation, model_value
from . import h_join, oracle, scenario, tracecheck

JOINS = ['jaccard_join', 'cosine_join', 'dice_join', 'overlap_coefficient_join', 'overlap_join',
         'edit_distance_join']
FILTERS = ['SizeFilter', 'PrefixFilter', 'PositionFilter', 'SuffixFilter', 'OverlapFilter']

# kind -> documented exception
KINDS = {
    'ltable-not-frame': TypeError, 'rtable-not-frame': TypeError, 'tokenizer-not-tokenizer': TypeError,
    'unknown-measure': TypeError,
    'unknown-l-key': AssertionError, 'unknown-r-key': AssertionError,
    'unknown-l-attr': AssertionError, 'unknown-r-attr': AssertionError,
    'unknown-l-out': AssertionError, 'unknown-r-out': AssertionError,
    'numeric-l-attr': AssertionError, 'numeric-r-attr': AssertionError,
    'dup-l-key': AssertionError, 'dup-r-key': AssertionError,
    'missing-l-key': AssertionError, 'missing-r-key': AssertionError,
    'threshold-low': AssertionError, 'threshold-high': AssertionError,
    'bad-op': AssertionError, 'non-qgram-tokenizer': AssertionError,
    'candset-not-frame': TypeError, 'unknown-cand-l-key': AssertionError,
    'unknown-cand-r-key': AssertionError,
}


class CountingTok(symdata.AbsTok):
    def __init__(self, return_set=False):
        symdata.AbsTok.__init__(self, return_set)
        self.calls = 0

    def tokenize(self, cell):
        self.calls += 1
        return symdata.AbsTok.tokenize(self, cell)


class AbsQgramTok(QgramTokenizer):
    """q-gram tokenizer over abstract cells (validation only sees isinstance and the flags)."""

    def __init__(self, return_set=False):
        QgramTokenizer.__init__(self, qval=2, return_set=return_set)
        self.calls = 0
        self.flips = []

    def set_return_set(self, v):
        self.flips.append(v)
        return QgramTokenizer.set_return_set(self, v)

    def tokenize(self, cell):
        self.calls += 1
        toks = cell.token_list()
        return symdata.dedupe(toks) if self.return_set else toks


def invoke(ssj, entry, Lf, Rf, cand, ck, crk, a, t):
    if entry in JOINS:
        if entry == 'edit_distance_join':
            return ssj.edit_distance_join(Lf, Rf, a['l_key'], a['r_key'], a['l_attr'], a['r_attr'],
                                          a['threshold'], a['comp_op'], False, a['l_out'], a['r_out'],
                                          'l_', 'r_', True, 1, False, t)
        if entry == 'overlap_join':
            return ssj.overlap_join(Lf, Rf, a['l_key'], a['r_key'], a['l_attr'], a['r_attr'], t,
                                    a['threshold'], a['comp_op'], False, a['l_out'], a['r_out'],
                                    'l_', 'r_', True, 1, False)
        return getattr(ssj, entry)(Lf, Rf, a['l_key'], a['r_key'], a['l_attr'], a['r_attr'], t,
                                   a['threshold'], a['comp_op'], True, False, a['l_out'],
                                   a['r_out'], 'l_', 'r_', True, 1, False)
    fname = entry.split(':', 1)[1] if ':' in entry else None
    if fname:
        cls = getattr(ssj, fname)
        if fname == 'OverlapFilter':
            if entry.startswith('ctor:'):
                return cls(t, a['threshold'], a['comp_op'])
            f = cls(t, 1, '>=')
        else:
            if entry.startswith('ctor:'):
                return cls(t, a['measure'], a['threshold'])
            f = cls(t, a['measure'], 0.5 if a['measure'] not in ('OVERLAP', 'EDIT_DISTANCE') else 1)
        if entry.startswith('filter_tables:'):
            return f.filter_tables(Lf, Rf, a['l_key'], a['r_key'], a['l_attr'], a['r_attr'],
                                   a['l_out'], a['r_out'], show_progress=False)
        return f.filter_candset(cand, ck, crk, Lf, Rf, a['l_key'], a['r_key'], a['l_attr'],
                                a['r_attr'], show_progress=False)
    if entry == 'apply_matcher':
        return ssj.apply_matcher(cand, ck, crk, Lf, Rf, a['l_key'], a['r_key'], a['l_attr'],
                                 a['r_attr'], t, lambda x, y: 1, 1, a['comp_op'], False,
                                 a['l_out'], a['r_out'], show_progress=False)
    if entry == 'profile':
        return ssj.profile_table_for_join(Lf, [a['l_attr']])
    raise ValueError(entry)



def kinds_for(entry):
    common = ['ltable-not-frame', 'rtable-not-frame', 'unknown-l-key', 'unknown-r-key',
              'unknown-l-attr', 'unknown-r-attr', 'numeric-l-attr', 'numeric-r-attr', 'dup-l-key',
              'dup-r-key', 'missing-l-key', 'missing-r-key']
    if entry in JOINS:
        k = common + ['unknown-l-out', 'unknown-r-out', 'tokenizer-not-tokenizer', 'threshold-low',
                      'bad-op']
        if entry not in ('overlap_join', 'edit_distance_join'):
            k.append('threshold-high')
        if entry == 'edit_distance_join':
            k.append('non-qgram-tokenizer')
        return k
    if entry.startswith('ctor:'):
        f = entry[5:]
        k = ['tokenizer-not-tokenizer', 'threshold-low']
        if f == 'OverlapFilter':
            k.append('bad-op')
        else:
            k += ['unknown-measure', 'threshold-high', 'non-qgram-tokenizer']
        return k
    if entry.startswith('filter_tables:'):
        return common + ['unknown-l-out', 'unknown-r-out']
    if entry.startswith('filter_candset:'):
        return common + ['candset-not-frame', 'unknown-cand-l-key', 'unknown-cand-r-key']
    if entry == 'apply_matcher':
        return [x for x in common if not x.startswith('numeric')] + [
            'candset-not-frame', 'unknown-cand-l-key', 'unknown-cand-r-key', 'unknown-l-out',
            'unknown-r-out', 'tokenizer-not-tokenizer', 'bad-op']
    if entry == 'profile':
        return ['ltable-not-frame', 'unknown-l-attr']
    raise ValueError(entry)


def make(cfg):
    entry = cfg['entry']
    kinds = cfg.get('kinds') or kinds_for(entry)
    valid_too = cfg.get('valid', True)
    shapes = cfg.get('shapes', ['normal', 'no-rows', 'one-row', 'all-missing', 'all-empty', 'str-dtype'])

    def h(c):
        options = list(kinds) + ([('valid', sh) for sh in shapes] if valid_too else [])
        pick = symdata.choice(c, 'case', options)
        invalid = pick if isinstance(pick, str) else None
        shape = pick[1] if not isinstance(pick, str) else 'normal'
        tok_mode = symdata.choice(c, 'tokmode', [False, True])
        nrows = {'no-rows': 0, 'one-row': 1}.get(shape, 2)
        missing = True if shape == 'all-missing' else ('sym' if shape == 'normal' else False)
        k, kmin = (0, 0) if shape == 'all-empty' else (1, 0)
        Lt = scenario.build_table(c, 'L', nrows, max(k, 1), kmin, missing, False, False)
        Rt = scenario.build_table(c, 'R', nrows, max(k, 1), kmin, missing, False, False)
        if shape == 'all-empty':
            for t in (Lt, Rt):
                for r in t.rows:
                    c.assume(r[1].ntok == 0)
        dt = {}
        if shape == 'str-dtype':
            dt = {'attr': pdmodel.StringDtype()}
        Lt.dtypes, Rt.dtypes = dict(dt), dict(dt)
        ed = entry == 'edit_distance_join' or cfg.get('measure') == 'EDIT_DISTANCE'
        measure = cfg.get('measure', 'JACCARD')
        if entry.startswith('ctor:') and not entry.endswith('OverlapFilter'):
            measure = symdata.choice(c, 'measure', cfg.get('measures', [measure]))
            if symdata.choice(c, 'lowercase', [False, True]):
                measure = measure.lower()
            ed = measure.upper() == 'EDIT_DISTANCE'
        args = dict(l_key='id', r_key='id', l_attr='attr', r_attr='attr', l_out=None, r_out=None,
                    comp_op='<=' if ed else '>=', measure=measure, tok=None)
        tok = AbsQgramTok(tok_mode) if ed else CountingTok(tok_mode)
        args['tok'] = tok
        if entry in ('overlap_join',) or entry.endswith('OverlapFilter'):
            args['threshold'] = 1
        elif ed:
            args['threshold'] = symdata.choice(c, 'edthr', [0, 1, 2]) if entry.startswith('ctor:') else 1
        elif measure.upper() == 'OVERLAP':
            args['threshold'] = symdata.choice(c, 'ovthr', [1, 2])
        else:
            args['threshold'] = 0.5
        # ---- inject the violated precondition ----
        if ed and not invalid and shape not in ('no-rows', 'all-missing'):
            c.assume(False)          # q-gram strings are the subject of C03
        if invalid == 'unknown-l-key':
            args['l_key'] = 'nokey'
        elif invalid == 'unknown-r-key':
            args['r_key'] = 'nokey'
        elif invalid == 'unknown-l-attr':
            args['l_attr'] = 'noattr'
        elif invalid == 'unknown-r-attr':
            args['r_attr'] = 'noattr'
        elif invalid == 'unknown-l-out':
            args['l_out'] = ['x', 'nope']
        elif invalid == 'unknown-r-out':
            args['r_out'] = ['nope']
        elif invalid == 'numeric-l-attr':
            Lt.dtypes['attr'] = pdmodel.DType(symdata.choice(c, 'numdt', ['int64', 'float64']))
        elif invalid == 'numeric-r-attr':
            Rt.dtypes['attr'] = pdmodel.DType(symdata.choice(c, 'numdt', ['int64', 'float64']))
        elif invalid in ('dup-l-key', 'dup-r-key'):
            t = Lt if invalid == 'dup-l-key' else Rt
            t.rows[1] = (t.rows[0][0],) + t.rows[1][1:]
        elif invalid in ('missing-l-key', 'missing-r-key'):
            t = Lt if invalid == 'missing-l-key' else Rt
            i = int(c.int_var('which', 0, len(t.rows) - 1))
            t.rows[i] = (None,) + t.rows[i][1:]
        elif invalid == 'threshold-low':
            if ed:
                args['threshold'] = symdata.choice(c, 'lowthr', [lambda cc: cc.int_var('thr', -3, -1),
                                                                -0.5, -1e-9, -1.5, -0.999])
                if callable(args['threshold']):
                    args['threshold'] = args['threshold'](c)
            elif isinstance(args['threshold'], int):
                args['threshold'] = c.int_var('thr', -3, 0)
            else:
                args['threshold'] = c.float_var('thr', -1.0, 0.0)
        elif invalid == 'threshold-high':
            if args['measure'].upper() in ('OVERLAP', 'EDIT_DISTANCE'):
                c.assume(False)          # these measures have no upper limit
            args['threshold'] = c.float_var('thr', 1.0, 4.0, lo_open=True)
        elif invalid == 'bad-op':
            bad_ops = ['>=', '>', '!=', 'x'] if ed else ['<=', '<', '!=', 'x']
            if entry == 'apply_matcher':
                bad_ops = ['x', '==', '=>']
            args['comp_op'] = symdata.choice(c, 'badop', bad_ops)
        elif invalid == 'tokenizer-not-tokenizer':
            args['tok'] = symdata.choice(c, 'badtok', [object(), 'ws', 3])
        elif invalid == 'non-qgram-tokenizer':
            args['tok'] = CountingTok(tok_mode)
            args['measure'] = 'edit_distance' if args['measure'].islower() else 'EDIT_DISTANCE'
            if entry.startswith('ctor:'):
                args['threshold'] = symdata.choice(c, 'edthr2', [0, 1, 0.5])
        elif invalid == 'unknown-measure':
            args['measure'] = symdata.choice(c, 'badm', ['JACARD', 'overlap_coefficient', ''])
        Lf, Rf = Lt.frame(), Rt.frame()
        if invalid == 'ltable-not-frame':
            Lf = symdata.choice(c, 'badframe', [list(Lt.rows), None, 'table'])
        if invalid == 'rtable-not-frame':
            Rf = symdata.choice(c, 'badframe', [list(Rt.rows), None])
        snaps = tuple(f.snapshot() for f in (Lf, Rf) if isinstance(f, pdmodel.FakeFrame))
        cand = None
        info_empty = [False]
        if entry.startswith('filter_candset') or entry == 'apply_matcher':
            crows = [(0, r[0], q[0]) for r in Lt.rows[:1] for q in Rt.rows[:2] if r[0] is not None
                     and q[0] is not None]
            if symdata.choice(c, 'emptycand', [False, True]):
                crows = []            # a candidate set without rows is still a valid candidate set
                info_empty[0] = True
            cand = pdmodel.FakeFrame(crows, columns=['_id', 'l_id', 'r_id'])
            if invalid == 'candset-not-frame':
                cand = crows
        ck, crk = 'l_id', 'r_id'
        if invalid == 'unknown-cand-l-key':
            ck = 'zz'
        if invalid == 'unknown-cand-r-key':
            crk = 'zz'
        ssj = repo.mod('')
        t = args['tok']
        info = {'entry': entry, 'invalid': invalid, 'shape': shape, 'tok_return_set': tok_mode}

        def detail(clause, msg):
            def mk(mdl):
                d = dict(info)
                d.update({'prop': 'C15', 'clause': clause, 'msg': msg, 'harness': 'h_valid',
                          'site': entry, 'threshold': model_value(mdl, args['threshold']),
                          'comp_op': args['comp_op'], 'measure': args['measure'],
                          'bad_value': repr(model_value(mdl, args['tok'])) if invalid == 'tokenizer-not-tokenizer' else None,
                          'L': scenario.concretize_scenario({'L': scenario.table_dict(Lt)}, mdl)['L'],
                          'R': scenario.concretize_scenario({'R': scenario.table_dict(Rt)}, mdl)['R'],
                          'l_dtypes': dict((k2, v.name) for k2, v in Lt.dtypes.items()),
                          'r_dtypes': dict((k2, v.name) for k2, v in Rt.dtypes.items()),
                          'args': dict((k2, v) for k2, v in args.items() if k2 in (
                              'l_key', 'r_key', 'l_attr', 'r_attr', 'l_out', 'r_out')),
                          'cand_keys': [ck, crk], 'empty_cand': info_empty[0]})
                return d
            return mk

        exc, out = None, None
        with repo.patched(h_join.bindings()):
            try:
                out = invoke(ssj, entry, Lf, Rf, cand, ck, crk, args, t)
            except Violation:
                raise
            except Exception as e:
                exc = e
        mode_now = t.get_return_set() if hasattr(t, 'get_return_set') else None
        if invalid:
            want = KINDS[invalid]
            if exc is None:
                msg = '%s with %s was accepted (returned %s); documented: %s' % (
                    entry, invalid, type(out).__name__, want.__name__)
                raise Violation('C15/rejects: ' + msg, detail('rejects', msg))
            if not isinstance(exc, want):
                msg = '%s with %s raised %s (%s); documented: %s' % (
                    entry, invalid, type(exc).__name__, exc, want.__name__)
                raise Violation('C15/exception-type: ' + msg, detail('exception-type', msg))
            if hasattr(t, 'get_return_set') and mode_now != tok_mode:
                msg = '%s rejected the call (%s) but left the tokenizer in return_set=%r (was %r)' % (
                    entry, invalid, mode_now, tok_mode)
                raise Violation('C15/tokenizer-untouched: ' + msg, detail('tokenizer-untouched', msg))
            if getattr(t, 'calls', 0):
                msg = '%s did work (tokenized %d values) before rejecting %s' % (entry, t.calls, invalid)
                raise Violation('C15/up-front: ' + msg, detail('up-front', msg))
            now = tuple(f.snapshot() for f in (Lf, Rf) if isinstance(f, pdmodel.FakeFrame))
            if now != snaps:
                raise Violation('C15/args-untouched', detail('args-untouched', 'a table was modified'))
        else:
            if exc is not None:
                msg = 'valid call (%s, shape %s) raised %s: %s' % (entry, shape, type(exc).__name__, exc)
                raise Violation('C15/accepts: ' + msg, detail('accepts', msg))
            if entry.startswith('ctor:'):
                pass
            elif not isinstance(out, pdmodel.FakeFrame):
                msg = 'valid call returned %r' % type(out)
                raise Violation('C15/returns-frame: ' + msg, detail('returns-frame', msg))
            if hasattr(t, 'get_return_set') and mode_now != tok_mode:
                msg = 'tokenizer mode %r after a valid call, was %r' % (mode_now, tok_mode)
                raise Violation('C15/tokenizer-untouched: ' + msg, detail('tokenizer-untouched', msg))
        tags = [invalid or ('valid:' + shape)]
        if not ed and not isinstance(args['threshold'], (type(None),)) and invalid != 'tokenizer-not-tokenizer':
            if tracecheck.maybe_validate(c, 'h_valid', detail('trace-validation', '-'), cfg.get('validate_every', 40), 'C15'):
                tags.append('validated')
        return {'nontrivial': True, 'tags': tags, 'sample': None}

    return h
