"""H-VERIFY: the final verification step of the joins with symbolic set sizes and a symbolic threshold
(the numeric slice that the E2 harnesses only reach at tiny sizes and concrete thresholds).

The real `set_sim_join` / `_overlap_coefficient_join_split` run on a 1x1 table; the candidate
generation is stubbed to always return the one candidate, and the similarity is "as py_stringmatching
computes it from the set sizes" with the sizes (n, m, overlap o) symbolic bit-vectors
(1 <= o <= min(n,m), n,m <= N).  Everything downstream is the real code on IEEE proxies:
`round(sim, 4)`, the comparison with the threshold (a symbolic double in [1e-4, 1]), the score that
is emitted.  Oracle: the pair is returned iff op(round(raw,4), t) [overlap coefficient: op(raw, t)],
and the emitted score is exactly that value - for every size tuple and every double threshold.
QF_BVFP, fresh non-incremental z3 per check."""
import z3

from engine import repo
from engine.numkernel import fp
from engine.pathsym import pdmodel, symdata
from engine.pathsym.core import SymBool, Violation
from . import h_join, oracle
from .h_prof import BVInt, PFP, as_float, sym_round, W, ONE, ZERO, _bv

OPS = {'>=': lambda a, b: z3.fpGEQ(a, b), '>': lambda a, b: z3.fpGT(a, b), '=': lambda a, b: z3.fpEQ(a, b)}


def raw_term(measure, n, m, o):
    nf, mf, of = [z3.fpToFPUnsigned(fp.RNE, x.t, fp.F64) for x in (n, m, o)]
    if measure == 'JACCARD':
        return z3.fpDiv(fp.RNE, of, z3.fpToFPUnsigned(fp.RNE, n.t + m.t - o.t, fp.F64))
    if measure == 'DICE':
        return z3.fpDiv(fp.RNE, z3.fpMul(fp.RNE, fp.fpval(2.0), of),
                        z3.fpToFPUnsigned(fp.RNE, n.t + m.t, fp.F64))
    if measure == 'COSINE':
        return z3.fpDiv(fp.RNE, of, z3.fpMul(fp.RNE, z3.fpSqrt(fp.RNE, nf), z3.fpSqrt(fp.RNE, mf)))
    if measure == 'OVERLAP_COEFFICIENT':
        mn = z3.If(z3.ULE(n.t, m.t), n.t, m.t)
        return z3.fpDiv(fp.RNE, of, z3.fpToFPUnsigned(fp.RNE, mn, fp.F64))
    raise ValueError(measure)


class _Probe(list):
    """the probe record's token list: len() is the symbolic size m"""


def bool_choice(c, name, options):
    """symbolic choice made with Boolean decision variables only (an Int variable would take the
    queries out of QF_BVFP and away from z3's bit-blasting tactic)"""
    options = list(options)
    while len(options) > 1:
        half = len(options) // 2
        if bool(c.bool_var(name)):
            options = options[:half]
        else:
            options = options[half:]
    return options[0]


def make(cfg):
    measures = cfg.get('measures') or [cfg['measure']]
    N = cfg.get('N', 32)
    ops = cfg.get('comp_ops', ['>=', '>', '='])

    def h(c):
        type(c).fresh_mode = True
        measure = bool_choice(c, 'measure', measures)     # explored concurrently by the workers
        # narrow variables (zero-extended): keeps the int->double conversion circuits small
        NB = max(3, N.bit_length())
        n = BVInt(z3.ZeroExt(W - NB, z3.BitVec(c.fresh_name('n'), NB)))
        m = BVInt(z3.ZeroExt(W - NB, z3.BitVec(c.fresh_name('m'), NB)))
        o = BVInt(z3.ZeroExt(W - NB, z3.BitVec(c.fresh_name('o'), NB)))
        c._assert(z3.And(z3.UGE(o.t, ONE), z3.ULE(o.t, n.t), z3.ULE(o.t, m.t),
                         z3.ULE(n.t, z3.BitVecVal(N, W)), z3.ULE(m.t, z3.BitVecVal(N, W))))
        if measure in ('JACCARD', 'DICE', 'COSINE'):
            # py_stringmatching returns 1.0 for identical sets without dividing
            pass
        t = PFP(z3.FP(c.fresh_name('t'), fp.F64))
        c._assert(z3.And(z3.fpGEQ(t.t, fp.fpval(1e-4)), z3.fpLEQ(t.t, fp.fpval(1.0))))
        op = bool_choice(c, 'op', ops)
        raw = raw_term(measure, n, m, o)
        if measure != 'OVERLAP_COEFFICIENT':
            same = z3.And(n.t == m.t, o.t == n.t)
            raw = z3.If(same, fp.fpval(1.0), raw)
        want_score = fp.round_k(raw, 4) if measure != 'OVERLAP_COEFFICIENT' else raw
        fp.begin_side()
        cols = ['id', 'attr']
        ltab, rtab = [(1, 'L')], [(11, 'R')]
        b = dict(h_join.bindings())
        math_b = {'round': sym_round, 'float': as_float, 'int': fp.sym_int}

        class Tok(symdata.AbsTok):
            def tokenize(self_, v):
                return _Probe(['tok']) if v == 'R' else ['tok']

        def sym_len(x):
            if isinstance(x, _Probe):
                return m
            return len(x)

        def sym_min(a, b_):
            if isinstance(a, BVInt) or isinstance(b_, BVInt):
                x, y = _bv(a), _bv(b_)
                return a if SymBool(z3.ULE(x, y)) else b_
            return min(a, b_)

        def detail(clause, msg):
            def mk(mdl):
                def iv(x):
                    return mdl.eval(x.t, model_completion=True).as_long()
                return {'prop': cfg['props'][0], 'clause': clause, 'msg': msg, 'harness': 'h_verify',
                        'measure': measure, 'site': 'verification-step', 'n': iv(n), 'm': iv(m), 'o': iv(o),
                        't': fp.fp_to_float(mdl.eval(t.t, model_completion=True)), 'comp_op': op}
            return mk
        tok = Tok(return_set=True)
        try:
            if measure == 'OVERLAP_COEFFICIENT':
                modname = 'join.overlap_coefficient_join_py'
                mod = repo.mod(modname)

                class Idx(object):
                    def __init__(self, *a, **k):
                        self.size_cache = [n]
                        self.index = {'tok': [0]}

                    def build(self, *a, **k):
                        return {'empty_records': []}

                class Flt(object):
                    def __init__(self, *a, **k):
                        pass

                    def find_candidates(self, toks, idx):
                        return {0: o}
                b.update({(modname, 'InvertedIndex'): Idx, (modname, 'OverlapFilter'): Flt,
                          (modname, 'len'): sym_len, (modname, 'min'): sym_min})
                for k_, v_ in math_b.items():
                    b[(modname, k_)] = v_
                with repo.patched(b):
                    out = mod._overlap_coefficient_join_split(
                        ltab, rtab, cols, cols, 'id', 'id', 'attr', 'attr', tok, t, op, True, None, None,
                        'l_', 'r_', True, False)
            else:
                modname = 'join.set_sim_join'
                mod = repo.mod(modname)

                def sim_fn(a, b_):
                    return PFP(raw)

                class Flt(object):
                    def __init__(self, *a, **k):
                        pass

                    def find_candidates(self, toks, idx):
                        return {0: 1}
                class PIdx(object):
                    def __init__(self, *a, **k):
                        pass

                    def build(self, *a, **k):
                        return {'cached_tokens': [['tok']], 'empty_records': []}
                b.update({(modname, 'get_sim_function'): lambda mt: sim_fn, (modname, 'PositionFilter'): Flt,
                          (modname, 'PositionIndex'): PIdx})
                for k_, v_ in math_b.items():
                    b[(modname, k_)] = v_
                b[(modname, 'gen_token_ordering_for_tables')] = lambda *a, **k: {'tok': 1}
                with repo.patched(b):
                    out = mod.set_sim_join(ltab, rtab, cols, cols, 'id', 'id', 'attr', 'attr', tok, measure,
                                           t, op, True, None, None, 'l_', 'r_', True, False)
        except Violation:
            raise
        except Exception as e:
            msg = 'verification step raised %s: %s' % (type(e).__name__, e)
            raise Violation(msg, detail('call-succeeds', msg))
        res = oracle.Result.of(out)
        present = len(res.rows) > 0
        if present:
            # the emitted score first (a query without the threshold), then the decision
            sc = res.rows[0][-1]
            sct = sc.t if isinstance(sc, fp.SymFP) else fp.lift(sc)
            if not (isinstance(sc, fp.SymFP) and z3.simplify(sct).eq(z3.simplify(want_score))):
                if not SymBool(z3.fpEQ(sct, want_score)):
                    msg = 'the reported _sim_score is not the %s similarity%s' % (
                        measure, ' rounded to 4 decimals' if measure != 'OVERLAP_COEFFICIENT' else '')
                    raise Violation('%s/verify-score: %s' % (cfg['props'][0], msg), detail('verify-score', msg))
        should = SymBool(OPS[op](want_score, t.t))
        if present != bool(should):
            msg = 'pair with sizes (n, m, overlap) is %s although its %s score %s the threshold' % (
                'returned' if present else 'not returned', measure, 'satisfies' if not present else 'does not satisfy')
            raise Violation('%s/verify: %s' % (cfg['props'][0], msg), detail('verify-decision', msg))
        return {'nontrivial': True, 'tags': ['present=%r' % present], 'sample': None}

    return h
