"""H-PAIR: filter_pair of the five filters on one symbolic pair of cells (real pair-level token
ordering; real, contract-constrained or unconstrained kernel)."""
import z3

from engine import repo
from engine.pathsym import symdata
from engine.pathsym.core import Violation, model_value
from . import h_core, oracle, ref, scenario, tracecheck

DEFAULTS = dict(filter='PrefixFilter', measure='JACCARD', k=3, kmin=0, thresholds=[0.5],
                comp_ops=['>='], allow_empty=[True, False], allow_missing=[False], missing=False,
                nonempty=False, kernel='real', props=None, mono=False, twin=False, validate_every=150)

_BIND = None
_COUNTER = [0]
MODNAME = {'SizeFilter': 'filter.size_filter', 'PrefixFilter': 'filter.prefix_filter',
           'PositionFilter': 'filter.position_filter', 'SuffixFilter': 'filter.suffix_filter',
           'OverlapFilter': 'filter.overlap_filter'}


def make(cfg_in):
    cfg = dict(DEFAULTS)
    cfg.update(cfg_in)
    props = set(cfg['props']) if cfg['props'] else None

    def h(c):
        global _BIND
        if _BIND is None:
            _BIND = repo.model_bindings()
        flt, measure, k = cfg['filter'], cfg['measure'], cfg['k']
        s = dict(entry='filter_pair', filter=flt, measure=measure, kind='filter',
                 comp_op=symdata.choice(c, 'op', cfg['comp_ops']),
                 allow_empty=symdata.choice(c, 'ae', cfg['allow_empty']),
                 allow_missing=symdata.choice(c, 'am', cfg['allow_missing']),
                 tok_return_set=True)
        if cfg['kernel'] == 'real' or flt == 'OverlapFilter':
            s['threshold'] = symdata.choice(c, 'thr', cfg['thresholds'])
            if callable(s['threshold']):
                s['threshold'] = s['threshold'](c)
        elif measure == 'OVERLAP':
            s['threshold'] = c.int_var('thr', 1, k + 1)
        else:
            s['threshold'] = c.float_var('thr', 0.0, 1.0, lo_open=True)
        kl, kr = cfg.get('kl', k), cfg.get('kr', k)
        lc = symdata.Cell(c, 'l', kl, cfg.get('kminl', cfg['kmin']), cfg['missing'], False, cfg['nonempty'])
        rc = symdata.Cell(c, 'r', kr, cfg.get('kminr', cfg['kmin']), cfg['missing'], False, cfg['nonempty'])
        s['l'], s['r'] = lc, rc
        w = scenario.SymWorld()
        tok = symdata.AbsTok(return_set=True)
        b = dict(_BIND)
        stub = None
        lmiss, rmiss = w.missing(lc), w.missing(rc)
        if not (lmiss or rmiss):
            lt, rt = w.tokset(lc), w.tokset(rc)
            n, m = len(lt), len(rt)
            o = ref.overlap_size(lt, rt)
        if cfg['kernel'] != 'real' and flt != 'OverlapFilter':
            stub = h_core.KernelStub(c, measure, cfg['kernel'], k)
            if not (lmiss or rmiss) and n and m:
                if cfg['kernel'] == 'contract':
                    stub.assert_pair(ref.qualifies(measure, n, m, o, '>=', s['threshold']), n, m, o)
                if cfg['mono']:
                    stub.assert_mono([n, m])
            b.update(stub.bindings(h_core.KERNEL_USERS))

        subclass = [None]

        def detail(prop, clause, msg):
            def mk(mdl):
                d = {'prop': prop, 'clause': clause, 'msg': msg, 'harness': 'h_pair',
                     'kernel': cfg['kernel'],
                     'scenario': scenario.concretize_scenario(s, mdl)}
                if subclass[0] and clause == 'safe':
                    d['subclass'] = subclass[0]
                if stub is not None:
                    d['kernel_values'] = {
                        'pl': dict((a, model_value(mdl, v)) for a, v in stub._pl.items()),
                        'lb': dict((a, model_value(mdl, v)) for a, v in stub._lb.items()),
                        'ub': dict((a, model_value(mdl, v)) for a, v in stub._ub.items()),
                        'alpha': dict(('%d,%d' % nm, model_value(mdl, v))
                                      for nm, v in stub._al.items())}
                return d
            return mk

        with repo.patched(b):
            try:
                f = scenario.make_filter(s, tok)
                dropped = f.filter_pair(lc, rc)
                dropped2 = None
                if cfg['twin'] and not (lmiss or rmiss):
                    # C14 "decides on the counts alone": unrelated tokens, same counts
                    l2 = symdata.Cell(c, 'l2', k, 0, False, False, False)
                    r2 = symdata.Cell(c, 'r2', k, 0, False, False, False)
                    c.assume(l2.ntok == n)
                    c.assume(r2.ntok == m)
                    dropped2 = f.filter_pair(l2, r2)
            except Violation:
                raise
            except Exception as e:
                msg = 'valid call raised %s: %s' % (type(e).__name__, e)
                raise Violation(msg, detail('CRASH', 'call-succeeds', msg))
        if not isinstance(dropped, bool):
            dropped = bool(dropped)
        viols = []
        if lmiss or rmiss:
            if dropped != (not s['allow_missing']):
                viols.append(('C08', 'pair-missing', 'pair with a missing value: dropped=%r with '
                              'allow_missing=%r' % (dropped, s['allow_missing'])))
        else:
            if flt == 'OverlapFilter':
                keep = (w.nonempty_string(lc) and w.nonempty_string(rc) and
                        bool(ref.OPS[s['comp_op']](o, s['threshold'])))
                if dropped == keep:
                    viols.append(('C06', 'overlap-exact', 'OverlapFilter.filter_pair dropped=%r but '
                                  'overlap %d %s %r is %r (both strings non-empty: %r)'
                                  % (dropped, o, s['comp_op'], s['threshold'], keep,
                                     (w.nonempty_string(lc), w.nonempty_string(rc)))))
                if o == 0 and not dropped:
                    viols.append(('C14', 'no-common-token', 'OverlapFilter keeps a pair without a '
                                  'common token'))
            elif n == 0 and m == 0:
                if measure == 'OVERLAP':
                    want = True
                elif measure == 'EDIT_DISTANCE':
                    want = None
                else:
                    want = not s['allow_empty']
                if want is not None and dropped != want:
                    viols.append(('C09', 'empty-pair', 'empty/empty pair: dropped=%r with measure %s '
                                  'allow_empty=%r' % (dropped, measure, s['allow_empty'])))
            else:
                if n and m and dropped and ref.qualifies(measure, n, m, o, '>=', s['threshold']):
                    viols.append(('C04', 'safe', '%s.filter_pair drops a pair that satisfies the '
                                  'threshold: sizes (%d,%d) overlap %d score %r >= %r'
                                  % (flt, n, m, o, ref.raw_score(measure, n, m, o), s['threshold'])))
                    if flt == 'SuffixFilter' and cfg['kernel'] == 'real':
                        subclass[0] = _suffix_pair_subclass(lt, rt, measure, s['threshold'], tok)
                if o == 0 and not dropped and flt in ('PrefixFilter', 'PositionFilter'):
                    viols.append(('C14', 'no-common-token', '%s keeps a pair without a common '
                                  'token (sizes %d,%d)' % (flt, n, m)))
                if dropped2 is not None and dropped2 != dropped:
                    viols.append(('C14', 'counts-alone', 'SizeFilter answers %r and %r for two pairs '
                                  'with the same token counts (%d,%d)' % (dropped, dropped2, n, m)))
        for (p, clause, msg) in viols:
            if props is None or p in props:
                raise Violation('%s/%s: %s' % (p, clause, msg), detail(p, clause, msg))
        _COUNTER[0] += 1
        nontriv = not (lmiss or rmiss) and (n > 0 or m > 0)
        sample = None
        if _COUNTER[0] <= 2:
            sample = detail('-', '-', '-')(c.get_model())
        tags = ['dropped=%r' % dropped]
        if cfg['kernel'] == 'real' and not isinstance(s['threshold'], (type(None),)) and \
                isinstance(s['threshold'], (int, float)):
            vp = (props and sorted(props - {'CRASH'})[0]) or 'C04'
            if tracecheck.maybe_validate(c, 'h_pair', detail(vp, 'trace-validation', '-'), cfg['validate_every'], vp):
                tags.append('validated')
        return {'nontrivial': nontriv, 'tags': tags, 'sample': sample}

    return h


def _suffix_pair_subclass(lt, rt, measure, threshold, tok):
    """Classify a SuffixFilter.filter_pair miss: under the pair-level order (frequency, then token)
    is there a shared token in the prefix of one record and the suffix of the other?"""
    fu = repo.mod('filter.filter_utils')
    shared_l = [any(a == b for b in rt) for a in lt]
    shared_r = [any(a == b for a in lt) for b in rt]
    # pair-level order: non-shared tokens (frequency 1) first, shared ones (frequency 2) last;
    # within a class by token, and the cells are presorted
    def ordered(toks, flags):
        return [t for t, f in zip(toks, flags) if not f] + [t for t, f in zip(toks, flags) if f], \
               [False] * sum(1 for f in flags if not f) + [True] * sum(1 for f in flags if f)
    lo, lf = ordered(lt, shared_l)
    ro, rf = ordered(rt, shared_r)
    pl_l = fu.get_prefix_length(len(lt), measure, threshold, tok)
    pl_r = fu.get_prefix_length(len(rt), measure, threshold, tok)
    # NB: the relative order of non-shared tokens of the two records does not matter for the
    # classification: only shared tokens can be "the same token in both records"
    for i, a in enumerate(lo):
        if not lf[i]:
            continue
        for j, b in enumerate(ro):
            if rf[j] and a == b and ((i < pl_l) != (j < pl_r)):
                return 'shared-token-in-prefix-of-one-suffix-of-other'
    return 'other'
