"""Concrete re-execution of each kind of counterexample on the real stack."""
import copy
import traceback

from engine import repo
from . import oracle, ref, scenario
from .replay import add_order_fillers

MEASURE_JOIN = {'JACCARD': 'jaccard_join', 'COSINE': 'cosine_join', 'DICE': 'dice_join',
                'OVERLAP_COEFFICIENT': 'overlap_coefficient_join', 'OVERLAP': 'overlap_join'}


def _frames_equal(a, b):
    try:
        if list(a.columns) != list(b.columns) or list(a.index) != list(b.index):
            return False
        if list(a.dtypes.astype(str)) != list(b.dtypes.astype(str)):
            return False
        for ra, rb in zip(a.itertuples(index=False, name=None), b.itertuples(index=False, name=None)):
            for x, y in zip(ra, rb):
                if not ref.same_value(x, y):
                    return False
        return len(a) == len(b)
    except Exception:
        return False


def _check_api(cs, prop, want_clause=None, check=None):
    """Run cs through the public API; evaluate the oracle of `prop` on the concrete result."""
    repo.load()
    L, R = scenario.real_frames(cs)
    L0, R0 = L.copy(deep=True), R.copy(deep=True)
    tok = scenario.real_tokenizer(cs)
    mode0 = tok.get_return_set()
    lines = ['entry=%s measure=%s threshold=%r op=%s n_jobs=%r allow_empty=%r allow_missing=%r '
             'out_sim_score=%r l_out=%r r_out=%r tokenizer.return_set=%r' % (
                 cs['entry'], cs.get('measure'), cs['threshold'], cs['comp_op'], cs['n_jobs'],
                 cs.get('allow_empty'), cs.get('allow_missing'), cs.get('out_sim_score'),
                 cs.get('l_out_attrs'), cs.get('r_out_attrs'), mode0),
             'left table:\n%s' % L.to_string(), 'right table:\n%s' % R.to_string()]
    try:
        out = scenario.call_entry(cs, L, R, tok)
    except Exception as e:
        lines.append('call raised %s: %s' % (type(e).__name__, e))
        return True if prop in ('CRASH', 'C08', 'C15', 'C01', 'C02', 'C04') or True else False, \
            '\n'.join(lines)
    lines.append('result:\n%s' % out.to_string())
    res = oracle.Result.of(out)
    w = scenario.ConcreteWorld()
    cst = scenario.concrete_tables(cs)
    if cs.get('filter') == 'OverlapFilter' or cs['entry'] == 'overlap_join':
        viols = oracle.check_overlap_filter_tables(cst, w, res)
    else:
        viols = oracle.check_join_output(cst, w, res)
    if tok.get_return_set() != mode0:
        viols.append(('C12', 'tokenizer-restored', 'tokenizer return_set is %r after the call, was %r'
                      % (tok.get_return_set(), mode0)))
    if not _frames_equal(L, L0) or not _frames_equal(R, R0):
        viols.append(('C12', 'inputs-untouched', 'an input table was modified by the call'))
    match = {prop}
    if prop == 'CRASH' and check:
        match = {check}          # a crash seen in the model: does the real outcome break the property?
    mine = [v for v in viols if v[0] in match or prop == 'ANY']
    for v in viols:
        lines.append('oracle: %s/%s: %s' % v)
    return bool(mine), '\n'.join(lines)


def replay_h_join(detail):
    cs = detail['scenario']
    return _check_api(cs, detail['prop'], check=detail.get('check'))


def replay_h_core(detail):
    cs = dict(detail['scenario'])
    cs['with_id'] = True
    e = cs['entry']
    if e == 'set_sim_join':
        cs['entry'] = MEASURE_JOIN[cs['measure']]
    elif e == 'oc_split':
        cs['entry'] = 'overlap_coefficient_join'
    elif e == 'filter_split':
        cs['entry'] = 'filter_tables'
    cs['tok_return_set'] = True
    tries = [cs]
    if detail.get('order') == 'identity':
        tries = [add_order_fillers(cs), cs]
    text = ''
    for c in tries:
        ok, text = _check_api(c, detail['prop'], check=detail.get('check'))
        if ok:
            return True, text
    return False, text


KINDS = {'h_join': replay_h_join, 'h_core': replay_h_core}


# ---- E1 counterexamples: (measure, threshold, sizes) -> canonical worst-case tables -------------

def _canon_tables(n, m, o):
    """left: n-o private + o shared tokens, right: m-o private + the same o shared.  Shared tokens
    have frequency 2, so the real frequency order puts them last - the arrangement in which a too
    short prefix, a too narrow size window or a too large required overlap loses the pair."""
    shared = ['s%03d' % i for i in range(o)]
    lp = ['a%03d' % i for i in range(n - o)]
    rp = ['b%03d' % i for i in range(m - o)]
    L = {'columns': ['id', 'attr', 'x', 'y'], 'index': [0], 'rows': [[1, ' '.join(lp + shared), 'L0.x', 'L0.y']]}
    R = {'columns': ['id', 'attr', 'x', 'y'], 'index': [0], 'rows': [[11, ' '.join(rp + shared), 'R0.x', 'R0.y']]}
    return L, R


def _e1_function_level(detail):
    from engine.numkernel import kernel
    d, t, measure = detail['desc'], detail['t'], detail['measure']
    k = d['kind']
    cc = kernel.call_concrete
    if k == 'lb':
        v = cc('get_size_lower_bound', measure, t, d['m'])
        return not (v <= d['n']), 'get_size_lower_bound(%d,%s,%r)=%r, needs <= %d' % (d['m'], measure, t, v, d['n'])
    if k == 'ub':
        v = cc('get_size_upper_bound', measure, t, d['m'])
        return not (d['n'] <= v), 'get_size_upper_bound(%d,%s,%r)=%r, needs >= %d' % (d['m'], measure, t, v, d['n'])
    if k == 'alpha':
        v = cc('get_overlap_threshold', measure, t, d['n'], d['m'])
        return not (v <= d['o']), 'get_overlap_threshold(%d,%d,%s,%r)=%r, needs <= %d' % (d['n'], d['m'], measure, t, v, d['o'])
    if k == 'pl':
        v = cc('get_prefix_length', measure, t, d['n'])
        return not (v >= d['n'] - d['o'] + 1), 'get_prefix_length(%d,%s,%r)=%r, needs >= %d' % (d['n'], measure, t, v, d['n'] - d['o'] + 1)
    if k == 'range':
        n, part = d['n'], d['part']
        pl = cc('get_prefix_length', measure, t, n)
        lb = cc('get_size_lower_bound', measure, t, n)
        ub = cc('get_size_upper_bound', measure, t, n)
        ok = {'pl>=1': pl >= 1, 'pl<=n': pl <= n, 'lb<=n': lb <= n, 'ub>=n': n <= ub}[part]
        return not ok, 'size %d at %r: prefix length %r, size window [%r,%r]; clause %s' % (n, t, pl, lb, ub, part)
    if k == 'mono':
        p1 = cc('get_prefix_length', measure, t, d['n'])
        p2 = cc('get_prefix_length', measure, t, d['n2'])
        s1, s2 = d['n'] - p1, d['n2'] - p2
        return not (s1 <= s2 and s2 - s1 <= d['n2'] - d['n']), 'suffix lengths %r (size %d), %r (size %d) at %r' % (s1, d['n'], s2, d['n2'], t)
    if k == 'tight':
        lb = cc('get_size_lower_bound', measure, t, d['n'])
        ub = cc('get_size_upper_bound', measure, t, d['n'])
        return (lb <= d['m'] <= ub), 'size window of %d at %r is [%r,%r]; contains %d although best similarity %r + 1e-4 < t' % (d['n'], t, lb, ub, d['m'], d['best'])
    return False, 'unknown kind'


def replay_e1_kernel(detail):
    from engine.numkernel import kernel
    bad, text = _e1_function_level(detail)
    lines = ['function level: ' + text + (' -> clause violated' if bad else ' -> clause holds')]
    if not bad:
        return False, '\n'.join(lines)
    d, t, measure = detail['desc'], detail['t'], detail['measure']
    k = d['kind']
    prop = detail.get('check') or detail.get('prop')
    if k in ('range', 'mono', 'tight'):
        if k == 'tight':
            # C14: SizeFilter.filter_pair keeps a pair of these sizes with disjoint tokens
            repo.load()
            ssj = repo.mod('')
            from py_stringmatching import WhitespaceTokenizer
            f = ssj.SizeFilter(WhitespaceTokenizer(return_set=True), measure, t)
            l = ' '.join('a%03d' % i for i in range(d['n']))
            r = ' '.join('a%03d' % i for i in range(d['m']))
            dropped = f.filter_pair(l, r)
            lines.append('SizeFilter(%s,%r).filter_pair(%d tokens, %d tokens) -> dropped=%r' % (measure, t, d['n'], d['m'], dropped))
            return (not dropped), '\n'.join(lines)
        return True, '\n'.join(lines)
    # pair level through the public API
    if k == 'pl':
        n, o = d['n'], d['o']
        m = None
        for cand in range(o, 80):
            if kernel.qual_bound(measure, n, cand, o) >= t:
                m = cand
                break
        if m is None:
            lines.append('no partner size found')
            return False, '\n'.join(lines)
    else:
        n, m = d['n'], d['m']
        o = d.get('o', min(n, m))
    for (a, b) in ((n, m), (m, n)):
        L, R = _canon_tables(a, b, o)
        base = dict(threshold=t, comp_op='>=', allow_empty=True, allow_missing=False, out_sim_score=True,
                    n_jobs=1, l_key='id', r_key='id', l_attr='attr', r_attr='attr', l_out_attrs=None,
                    r_out_attrs=None, l_out_prefix='l_', r_out_prefix='r_', tok_return_set=True,
                    measure=measure, L=L, R=R)
        tries = []
        if prop == 'C04':
            for flt in {'lb': ['SizeFilter'], 'ub': ['SizeFilter'], 'alpha': ['PositionFilter'],
                        'pl': ['PrefixFilter', 'PositionFilter']}[k]:
                c = dict(base, entry='filter_tables', filter=flt, kind='filter', out_sim_score=False)
                tries.append(('C04', c))
        else:
            tries.append(('C01', dict(base, entry=MEASURE_JOIN[measure], kind='join')))
        for p, cs in tries:
            ok, text = _check_api(cs, p)
            lines.append(text)
            if ok:
                return True, '\n'.join(lines)
    return False, '\n'.join(lines)


KINDS['e1_kernel'] = replay_e1_kernel


def replay_h_rel(detail):
    """Two presentations of the same call on the real stack (real joblib for n_jobs > 1)."""
    repo.load()
    outs, lines = [], []
    for key in ('scenario', 'scenario2'):
        cs = detail[key]
        L, R = scenario.real_frames(cs)
        tok = scenario.real_tokenizer(cs)
        lines.append('%s: entry=%s filter=%s n_jobs=%r threshold=%r op=%s\nleft:\n%s\nright:\n%s' % (
            key, cs['entry'], cs.get('filter'), cs['n_jobs'], cs['threshold'], cs['comp_op'],
            L.to_string(), R.to_string()))
        try:
            out = scenario.call_entry(cs, L, R, tok)
        except Exception as e:
            lines.append('call raised %s: %s' % (type(e).__name__, e))
            return True, '\n'.join(lines)
        lines.append('result:\n%s' % out.to_string())
        outs.append(oracle.Result.of(out))
    a, b = outs

    def wo_id(r):
        j = r.columns.index('_id') if '_id' in r.columns else None
        return oracle.Result([c for i, c in enumerate(r.columns) if i != j],
                             [tuple(v for i, v in enumerate(row) if i != j) for row in r.rows])
    bad = a.columns != b.columns or scenario.norm_rows(wo_id(a)) != scenario.norm_rows(wo_id(b))
    if '_id' in b.columns and [int(x) for x in b.col('_id')] != list(range(len(b.rows))):
        bad = True
    if detail.get('compare') != 'multiset' and bad:
        # only qualifying pairs must agree
        w = scenario.ConcreteWorld()
        bad = False
        for cs, r in ((detail['scenario'], a), (detail['scenario2'], b)):
            for v in oracle.check_join_output(scenario.concrete_tables(cs), w, r):
                if v[0] in ('C01', 'C04'):
                    lines.append('oracle: %s/%s: %s' % v)
                    bad = True
    lines.append('presentations %s' % ('DIFFER' if bad else 'agree'))
    return bool(bad), '\n'.join(lines)


KINDS['h_rel'] = replay_h_rel


def replay_e1_split(detail):
    repo.load()
    gh = repo.mod('utils.generic_helper')
    n, k = detail['n'], detail['k']
    table = list(range(n))
    chunks = gh.split_table(table, k)
    flat = [x for ch in chunks for x in ch]
    lines = ['split_table(list(range(%d)), %d) -> %r' % (n, k, chunks)]
    bad = flat != table
    lines.append('concatenation %s the table' % ('DIFFERS from' if bad else 'equals'))
    if bad and n <= 400:
        # API level: overlap_join with n_jobs=k on n right rows must return n pairs
        import pandas as pd
        from py_stringmatching import WhitespaceTokenizer
        ssj = repo.mod('')
        L = pd.DataFrame({'id': list(range(n)), 'attr': pd.Series(['w%05d' % i for i in range(n)], dtype=object)})
        R = pd.DataFrame({'id': list(range(1000, 1000 + n)), 'attr': pd.Series(['w%05d' % i for i in range(n)], dtype=object)})
        out = ssj.overlap_join(L, R, 'id', 'id', 'attr', 'attr', WhitespaceTokenizer(return_set=True), 1,
                               n_jobs=k, show_progress=False)
        lines.append('overlap_join of %d identical rows with n_jobs=%d returned %d rows (expected %d)' % (
            n, k, len(out), n))
    return bad, '\n'.join(lines)


KINDS['e1_split'] = replay_e1_split


def replay_h_hist(detail):
    """first call then second call on shared frames + tokenizer; second compared with isolation."""
    repo.load()
    s1, s2 = detail['scenario'], detail['scenario2']
    L, R = scenario.real_frames(s1)
    L0, R0 = L.copy(deep=True), R.copy(deep=True)
    tok = scenario.real_tokenizer(s1)
    mode0 = tok.get_return_set()
    lines = ['first: %s/%s  second: %s/%s  tokenizer.return_set=%r' % (
        s1['entry'], s1.get('filter'), s2['entry'], s2.get('filter'), mode0),
        'left:\n%s\nright:\n%s' % (L.to_string(), R.to_string())]
    try:
        scenario.call_entry(s1, L, R, tok)
        mode1 = tok.get_return_set()
        shared = oracle.Result.of(scenario.call_entry(s2, L, R, tok))
        mode2 = tok.get_return_set()
        L2, R2 = scenario.real_frames(s2)
        fresh = oracle.Result.of(scenario.call_entry(s2, L2, R2, scenario.real_tokenizer(s2)))
    except Exception as e:
        lines.append('call raised %s: %s' % (type(e).__name__, e))
        return True, '\n'.join(lines)
    bad = False
    if mode1 != mode0 or mode2 != mode0:
        lines.append('tokenizer return_set: before %r, after first %r, after second %r' % (mode0, mode1, mode2))
        bad = True
    if not _frames_equal(L, L0) or not _frames_equal(R, R0):
        lines.append('an input table was modified')
        bad = True
    if shared.columns != fresh.columns or scenario.norm_rows(shared) != scenario.norm_rows(fresh):
        lines.append('second call after the first: %r\nsecond call in isolation: %r' % (shared.rows, fresh.rows))
        bad = True
    return bad, '\n'.join(lines)


KINDS['h_hist'] = replay_h_hist


def replay_h_pair(detail):
    repo.load()
    cs = detail['scenario']
    prop = detail['prop']
    from py_stringmatching import WhitespaceTokenizer
    tok = WhitespaceTokenizer(return_set=True)
    l, r = cs['l'], cs['r']
    lines = ['%s(measure=%s, threshold=%r, op=%s, allow_empty=%r, allow_missing=%r).filter_pair(%r, %r)' % (
        cs['filter'], cs['measure'], cs['threshold'], cs['comp_op'], cs['allow_empty'],
        cs['allow_missing'], l, r)]
    try:
        f = scenario.make_filter(cs, tok)
        dropped = bool(f.filter_pair(l, r))
    except Exception as e:
        lines.append('raised %s: %s' % (type(e).__name__, e))
        return True, '\n'.join(lines)
    lines.append('-> dropped=%r' % dropped)
    w = scenario.ConcreteWorld()
    bad = False
    if w.missing(l) or w.missing(r):
        bad = dropped != (not cs['allow_missing'])
    else:
        lt, rt = w.tokset(l), w.tokset(r)
        n, m, o = len(lt), len(rt), ref.overlap_size(lt, rt)
        measure = cs['measure']
        lines.append('sizes (%d,%d) overlap %d' % (n, m, o))
        if cs['filter'] == 'OverlapFilter':
            keep = bool(l) and bool(r) and bool(ref.OPS[cs['comp_op']](o, cs['threshold']))
            bad = (dropped == keep)
        elif n == 0 and m == 0:
            want = True if measure == 'OVERLAP' else (None if measure == 'EDIT_DISTANCE' else not cs['allow_empty'])
            bad = want is not None and dropped != want
        else:
            if prop == 'C04':
                bad = bool(n and m and dropped and ref.qualifies(measure, n, m, o, '>=', cs['threshold']))
                lines.append('score %r vs threshold %r' % (ref.raw_score(measure, n, m, o), cs['threshold']))
            elif prop == 'C14':
                if detail.get('clause') == 'counts-alone':
                    l2 = ' '.join('p%03d' % i for i in range(n))
                    r2 = ' '.join('q%03d' % i for i in range(m))
                    d2 = bool(f.filter_pair(l2, r2))
                    lines.append('unrelated pair with the same counts -> dropped=%r' % d2)
                    bad = d2 != dropped
                else:
                    bad = (o == 0 and not dropped)
    return bad, '\n'.join(lines)


KINDS['h_pair'] = replay_h_pair


def replay_h_subset(detail):
    """PositionFilter.filter_tables vs Prefix/SizeFilter.filter_tables on the real stack."""
    repo.load()
    cs = dict(detail['scenario'])
    cs['with_id'] = True
    cs['entry'] = 'filter_tables'
    tries = [add_order_fillers(cs), cs] if detail.get('order') == 'identity' else [cs]
    text = ''
    for c in tries:
        res = {}
        lines = []
        for flt in ('PositionFilter', detail['other']):
            cc = dict(c, filter=flt)
            L, R = scenario.real_frames(cc)
            out = scenario.call_entry(cc, L, R, scenario.real_tokenizer(cc))
            res[flt] = set((int(a), int(b)) for a, b in zip(out['l_id'], out['r_id']))
            lines.append('%s(%s, %r).filter_tables -> %r' % (flt, cc['measure'], cc['threshold'], sorted(res[flt])))
        extra = res['PositionFilter'] - res[detail['other']]
        # ignore filler rows
        extra = set(p for p in extra if p[1] < 900)
        lines.append('kept by PositionFilter only: %r' % sorted(extra))
        text = '\n'.join(lines)
        if extra:
            return True, text
    return False, text


KINDS['h_subset'] = replay_h_subset


def replay_h_cand(detail):
    repo.load()
    import pandas as pd
    cs = detail['scenario']
    L, R = scenario.real_frames(cs)
    cd = cs['cand']
    cand = pd.DataFrame([list(r) for r in cd['rows']], columns=cd['columns'], index=cd['index'])
    L0, R0, C0 = L.copy(deep=True), R.copy(deep=True), cand.copy(deep=True)
    ssj = repo.mod('')
    lval = dict((r[cs['L']['columns'].index('id')], r[cs['L']['columns'].index('attr')]) for r in cs['L']['rows'])
    rval = dict((r[cs['R']['columns'].index('id')], r[cs['R']['columns'].index('attr')]) for r in cs['R']['rows'])
    w = scenario.ConcreteWorld()
    lines = ['candset:\n%s\nleft:\n%s\nright:\n%s' % (cand.to_string(), L.to_string(), R.to_string())]
    from py_stringmatching import WhitespaceTokenizer
    if cs['mode'] == 'matcher':
        table = {}
        for lk, rk, v in detail.get('sim_table', []):
            table[(lval[lk], rval[rk])] = v
        calls = []

        class Sim(object):
            def score(self, a, b):
                ka = ' '.join(a) if isinstance(a, list) else a
                kb = ' '.join(b) if isinstance(b, list) else b
                calls.append((a, b))
                return table.get((ka, kb), 0)
        sim = Sim()
        tok = WhitespaceTokenizer(return_set=True) if cs['use_tokenizer'] else None
        lines.append('apply_matcher(threshold=%r, op=%s, allow_missing=%r, out_sim_score=%r, n_jobs=%r, '
                     'tokenizer=%r, l_out=%r, r_out=%r); similarity table %r' % (
                         cs['threshold'], cs['comp_op'], cs['allow_missing'], cs['out_sim_score'],
                         cs['n_jobs'], bool(tok), cs['l_out_attrs'], cs['r_out_attrs'], detail.get('sim_table')))
        try:
            out = ssj.apply_matcher(cand, 'l_id', 'r_id', L, R, 'id', 'id', 'attr', 'attr', tok, sim.score,
                                    cs['threshold'], cs['comp_op'], cs['allow_missing'], cs['l_out_attrs'],
                                    cs['r_out_attrs'], 'l_', 'r_', cs['out_sim_score'], cs['n_jobs'], False)
        except Exception as e:
            lines.append('raised %s: %s' % (type(e).__name__, e))
            return True, '\n'.join(lines)
        header, lo, ro = oracle.expected_header(cs)
        exp = []
        for row in cd['rows']:
            lv, rv = lval[row[1]], rval[row[2]]
            if w.missing(lv) or w.missing(rv):
                if not cs['allow_missing']:
                    continue
                score = float('nan')
            else:
                score = table.get((lv, rv), 0)
                if not ref.OPS[cs['comp_op']](score, cs['threshold']):
                    continue
            lrow = [r for r in cs['L']['rows'] if r[cs['L']['columns'].index('id')] == row[1]][0]
            rrow = [r for r in cs['R']['rows'] if r[cs['R']['columns'].index('id')] == row[2]][0]
            e = [row[0], row[1], row[2]] + [lrow[cs['L']['columns'].index(a)] for a in lo] + \
                [rrow[cs['R']['columns'].index(a)] for a in ro]
            if cs['out_sim_score']:
                e.append(score)
            exp.append(tuple(e))
        got = oracle.Result.of(out)
        lines.append('result:\n%s\nexpected rows: %r' % (out.to_string(), exp))
        bad = (len(cd['rows']) and got.columns != header) or \
            [tuple(scenario.norm_rows(oracle.Result(got.columns, [r]))[0]) for r in got.rows] != \
            [tuple(scenario.norm_rows(oracle.Result(header, [r]))[0]) for r in exp]
    else:
        drop = dict(((lk, rk), v) for lk, rk, v in detail.get('drop_table', []))
        if cs['filter'] == 'AnyFilter':
            fmod = repo.mod('filter.filter')

            class AnyFilter(fmod.Filter):
                def filter_pair(self_, lv, rv):
                    for (lk, rk), v in drop.items():
                        if ref.same_value(lval[lk], lv) and ref.same_value(rval[rk], rv):
                            return v
                    return False
            f = AnyFilter(cs['allow_missing'])
        else:
            f = scenario.make_filter(cs, WhitespaceTokenizer(return_set=True))
        try:
            out = f.filter_candset(cand, 'l_id', 'r_id', L, R, 'id', 'id', 'attr', 'attr', cs['n_jobs'], False)
        except Exception as e:
            lines.append('raised %s: %s' % (type(e).__name__, e))
            return True, '\n'.join(lines)
        exp, exp_idx = [], []
        for row, lab in zip(cd['rows'], cd['index']):
            if not f.filter_pair(lval[row[1]], rval[row[2]]):
                exp.append(tuple(row))
                exp_idx.append(lab)
        got = oracle.Result.of(out)
        lines.append('filter_candset result:\n%s\nexpected rows %r with index %r' % (out.to_string(), exp, exp_idx))
        bad = got.columns != cd['columns'] or [tuple(r) for r in got.rows] != exp or list(got.index) != exp_idx
    if not _frames_equal(L, L0) or not _frames_equal(R, R0) or not _frames_equal(cand, C0):
        lines.append('an input frame was modified')
        bad = True
    return bool(bad), '\n'.join(lines)


KINDS['h_cand'] = replay_h_cand


def replay_h_prof(detail):
    """real pandas column with n rows, m missing values and u distinct values (a missing value
    counting as one) through the real profile_table_for_join."""
    repo.load()
    import pandas as pd
    n, u, m = detail['n'], detail['u'], detail['m']
    distinct_present = u - (1 if m > 0 else 0)
    present = n - m
    kind = detail.get('kind', 'O')
    ids = [(i if i < distinct_present else 0) for i in range(present)]
    if kind == 'f':
        col = pd.Series([float(i) + 0.5 for i in ids] + [float('nan')] * m, dtype='float64')
    elif kind == 'i':
        col = pd.Series([i - 7 for i in ids] + [pd.NA] * m, dtype='Int64')
    elif kind == 'u':
        col = pd.Series(ids + [pd.NA] * m, dtype='UInt32')
    elif kind == 'M':
        col = pd.Series([pd.Timestamp('2001-01-01') + pd.Timedelta(days=i) for i in ids] + [pd.NaT] * m,
                        dtype='datetime64[ns]')
    elif kind == 'S':
        col = pd.Series(['v%07d' % i for i in ids] + [None] * m, dtype='string')
    else:
        col = pd.Series(['v%07d' % i for i in ids] + [None] * m, dtype=object)
    df = pd.DataFrame({'a': col, 'b': col})
    pa = detail.get('profile_attrs', ['a'])
    out = repo.mod('').profile_table_for_join(df, pa)
    want_rows = ['a', 'b'] if pa is None else list(pa)
    if list(out.index) != want_rows:
        return True, 'profile_attrs=%r: result rows %r, expected %r' % (pa, list(out.index), want_rows)
    if 'a' not in want_rows:
        return False, 'attribute not profiled in this scenario'
    row = out.loc['a']
    comment = row['Comments']
    lines = ['table: %d rows, column dtype %s, %d distinct values (missing counted once), %d missing' % (
        n, col.dtype, u, m),
             'profile: Unique values=%r Missing values=%r Comments=%r' % (row['Unique values'], row['Missing values'], comment)]
    bad = False
    want_key = (u == n and m == 0)
    if (comment == 'This attribute can be used as a key attribute.') != want_key:
        lines.append('key recommendation is %r, should be %r' % (not want_key, want_key))
        bad = True
    if not want_key and (comment.startswith('Joining on this attribute will ignore')) != (m >= 1):
        lines.append('ignored-rows warning is %r, should be %r' % (comment.startswith('Joining'), m >= 1))
        bad = True
    exp_u = '%d (%s%%)' % (u, round(float(u) / float(n) * 100, 2))
    exp_m = '%d (%s%%)' % (m, round(float(m) / float(n) * 100, 2))
    if row['Unique values'] != exp_u or row['Missing values'] != exp_m:
        lines.append('statistics differ from %r / %r' % (exp_u, exp_m))
        bad = True
    if list(out.columns) != ['Unique values', 'Missing values', 'Comments']:
        bad = True
    return bad, '\n'.join(lines)


KINDS['h_prof'] = replay_h_prof


def replay_h_valid(detail):
    """C15 on the real stack: the same entry point, the same violated precondition (or the same valid
    degenerate shape), real pandas dtypes, real tokenizers."""
    repo.load()
    import pandas as pd
    from py_stringmatching import WhitespaceTokenizer, QgramTokenizer
    from harness import h_valid
    ssj = repo.mod('')
    entry, invalid = detail['entry'], detail['invalid']

    def frame(t, dts):
        cols = t['columns']
        data = {}
        for j, col in enumerate(cols):
            vals = [r[j] for r in t['rows']]
            if col == 'attr':
                dt = dts.get('attr', 'object')
                if dt in ('int64', 'float64'):
                    vals = [float(i) for i, _ in enumerate(vals)]
                    data[col] = pd.Series(vals, dtype=dt if dt == 'float64' or all(v == v for v in vals) else 'float64')
                elif dt == 'str':
                    data[col] = pd.Series(vals, dtype='str')
                else:
                    data[col] = pd.Series(vals, dtype=object)
            elif col == 'id':
                data[col] = pd.Series(vals, dtype=object if any(v is None for v in vals) else 'int64')
            else:
                data[col] = pd.Series(vals, dtype=object)
        return pd.DataFrame(data, columns=cols)
    L, R = frame(detail['L'], detail['l_dtypes']), frame(detail['R'], detail['r_dtypes'])
    if invalid == 'ltable-not-frame':
        L = [tuple(r) for r in detail['L']['rows']]
    if invalid == 'rtable-not-frame':
        R = [tuple(r) for r in detail['R']['rows']]
    ed = entry == 'edit_distance_join' or detail.get('measure') == 'EDIT_DISTANCE'
    mode0 = detail['tok_return_set']
    tok = QgramTokenizer(qval=2, return_set=mode0) if (ed and invalid != 'non-qgram-tokenizer') else WhitespaceTokenizer(return_set=mode0)
    t = tok
    if invalid == 'tokenizer-not-tokenizer':
        t = 'ws'
    a = dict(detail['args'])
    a.update(threshold=detail['threshold'], comp_op=detail['comp_op'], measure=detail['measure'])
    cand = None
    if entry.startswith('filter_candset') or entry == 'apply_matcher':
        lk = [r[detail['L']['columns'].index('id')] for r in detail['L']['rows'][:1]]
        rk = [r[detail['R']['columns'].index('id')] for r in detail['R']['rows'][:2]]
        crows = [(0, x, y) for x in lk for y in rk if x is not None and y is not None]
        if detail.get('empty_cand'):
            crows = []
        cand = pd.DataFrame(crows, columns=['_id', 'l_id', 'r_id'])
        if invalid == 'candset-not-frame':
            cand = crows
    ck, crk = detail['cand_keys']
    L0 = L.copy(deep=True) if hasattr(L, 'copy') and not isinstance(L, list) else None
    lines = ['%s, violated precondition: %s, shape: %s, tokenizer.return_set=%r, threshold=%r op=%r measure=%r' % (
        entry, invalid, detail['shape'], mode0, a['threshold'], a['comp_op'], a['measure']),
        'left:\n%s' % (L.to_string() if L0 is not None else L), 'left dtypes: %r' % (detail['l_dtypes'],)]
    exc, out = None, None
    try:
        out = h_valid.invoke(ssj, entry, L, R, cand, ck, crk, a, t)
    except Exception as e:
        exc = e
    lines.append('-> %s' % (('raised %s: %s' % (type(exc).__name__, exc)) if exc else ('returned %s' % type(out).__name__)))
    bad = False
    mode_now = tok.get_return_set()
    if invalid:
        want = h_valid.KINDS[invalid]
        if exc is None or not isinstance(exc, want):
            lines.append('documented: %s' % want.__name__)
            bad = True
        if mode_now != mode0 and t is tok:
            lines.append('tokenizer left in return_set=%r (was %r)' % (mode_now, mode0))
            bad = True
    else:
        if exc is not None:
            bad = True
        elif not entry.startswith('ctor:') and not isinstance(out, pd.DataFrame):
            bad = True
        if mode_now != mode0:
            lines.append('tokenizer left in return_set=%r (was %r)' % (mode_now, mode0))
            bad = True
    return bad, '\n'.join(lines)


KINDS['h_valid'] = replay_h_valid


def replay_h_ed(detail):
    """edit distance on the real stack: real QgramTokenizer, compiled Levenshtein, real pandas."""
    repo.load()
    import pandas as pd
    from py_stringmatching import QgramTokenizer
    cs = detail['scenario']
    prop = detail['prop']
    ssj = repo.mod('')
    tok = QgramTokenizer(qval=cs['q'], padding=cs['padding'], return_set=cs['return_set'])
    bag = QgramTokenizer(qval=cs['q'], padding=cs['padding'], return_set=False)
    tau, op = cs['threshold'], cs['comp_op']
    L, R = scenario.real_frames(cs)
    lines = ['entry=%s filter=%s q=%d padding=%r return_set=%r tau=%r op=%s n_jobs=%r allow_missing=%r' % (
        cs['entry'], cs.get('filter'), cs['q'], cs['padding'], cs['return_set'], tau, op, cs['n_jobs'],
        cs['allow_missing']), 'left:\n%s\nright:\n%s' % (L.to_string(), R.to_string())]
    lrows = [(r[0], r[1]) for r in cs['L']['rows']]
    rrows = [(r[0], r[1]) for r in cs['R']['rows']]

    def shares(a, b):
        ta, tb = bag.tokenize(a), bag.tokenize(b)
        return any(x in tb for x in ta)
    bad = False
    try:
        if cs['entry'] in ('ed_join', 'ed_split'):
            if cs.get('warmup_q'):
                lines.append('first an edit_distance_join with a %d-gram tokenizer on the same tables' % cs['warmup_q'])
                ssj.edit_distance_join(L.copy(), R.copy(), 'id', 'id', 'attr', 'attr', tau, '<=', False, None, None,
                                       'l_', 'r_', True, 1, False,
                                       QgramTokenizer(qval=cs['warmup_q'], padding=cs['padding'], return_set=False))
            out = ssj.edit_distance_join(L, R, 'id', 'id', 'attr', 'attr', tau, op, cs['allow_missing'], None, None,
                                         'l_', 'r_', cs['out_sim_score'], cs['n_jobs'], False, tok)
            lines.append('result:\n%s' % out.to_string())
            if [int(x) for x in out['_id']] != list(range(len(out))):
                lines.append('_id column is %r, expected 0..%d' % (list(out['_id']), len(out) - 1))
                bad = True
            seen = {}
            for row in out.itertuples(index=False, name=None):
                pk = (int(row[1]), int(row[2]))
                seen[pk] = seen.get(pk, 0) + 1
                lv = dict(lrows).get(pk[0])
                rv = dict(rrows).get(pk[1])
                if lv is None or rv is None:
                    if not cs['allow_missing'] or (cs['out_sim_score'] and not ref.is_nan(row[-1])):
                        lines.append('missing pair %r wrongly reported' % (pk,))
                        bad = True
                    continue
                d = ref.levenshtein(lv, rv)
                if seen[pk] > 1 or not ref.OPS[op](d, tau) or (cs['out_sim_score'] and row[-1] != d):
                    lines.append('row %r: edit distance %d' % (row, d))
                    bad = True
            for lk, lv in lrows:
                for rk, rv in rrows:
                    if lv is None or rv is None:
                        if cs['allow_missing'] and (lk, rk) not in seen:
                            lines.append('missing pair %r absent' % ((lk, rk),))
                            bad = True
                        continue
                    d = ref.levenshtein(lv, rv)
                    if ref.OPS[op](d, tau) and shares(lv, rv) and (lk, rk) not in seen:
                        lines.append('pair %r (%r, %r) distance %d shares a q-gram but is absent' % ((lk, rk), lv, rv, d))
                        bad = True
            if tok.get_return_set() != cs['return_set']:
                lines.append('tokenizer return_set changed to %r' % tok.get_return_set())
                bad = True
        else:
            f = getattr(ssj, cs['filter'])(bag, 'EDIT_DISTANCE', tau)
            if cs['entry'] == 'filter_pair':
                lv, rv = lrows[0][1], rrows[0][1]
                dropped = bool(f.filter_pair(lv, rv))
                d = ref.levenshtein(lv, rv)
                lines.append('filter_pair(%r, %r) -> dropped=%r; edit distance %d; shares q-gram %r' % (lv, rv, dropped, d, shares(lv, rv)))
                if prop == 'C14':
                    a, b = len(bag.tokenize(lv)), len(bag.tokenize(rv))
                    bad = (a or b) and dropped != (abs(a - b) > tau)
                else:
                    bad = dropped and d <= tau and shares(lv, rv)
            else:
                out = f.filter_tables(L, R, 'id', 'id', 'attr', 'attr', show_progress=False)
                lines.append('filter_tables:\n%s' % out.to_string())
                seen = set((int(a), int(b)) for a, b in zip(out['l_id'], out['r_id']))
                if prop == 'C14' and cs['filter'] == 'SizeFilter':
                    for lk, lv in lrows:
                        for rk, rv in rrows:
                            a, b = len(bag.tokenize(lv)), len(bag.tokenize(rv))
                            if a and b and ((lk, rk) in seen) != (abs(a - b) <= tau):
                                lines.append('pair %r q-gram counts %d,%d: listed=%r' % ((lk, rk), a, b, (lk, rk) in seen))
                                bad = True
                for lk, lv in lrows:
                    for rk, rv in rrows:
                        d = ref.levenshtein(lv, rv)
                        if (lk, rk) in seen:
                            if prop == 'C14' and cs['filter'] == 'PositionFilter':
                                a, b = len(bag.tokenize(lv)), len(bag.tokenize(rv))
                                if abs(a - b) > tau:
                                    lines.append('pair %r kept although q-gram counts %d,%d differ by more than %d' % ((lk, rk), a, b, tau))
                                    bad = True
                            continue
                        if prop != 'C14' and d <= tau and shares(lv, rv):
                            lines.append('pair %r (%r,%r) distance %d shares a q-gram but is dropped' % ((lk, rk), lv, rv, d))
                            bad = True
    except Exception as e:
        lines.append('raised %s: %s' % (type(e).__name__, e))
        bad = True
    return bool(bad), '\n'.join(lines)


KINDS['h_ed'] = replay_h_ed


def _join_pairs(cs):
    L, R = scenario.real_frames(cs)
    out = scenario.call_entry(cs, L, R, scenario.real_tokenizer(cs))
    if len(out) == 0:
        return {}, out
    return dict(((int(a), int(b)), s) for a, b, s in zip(out.iloc[:, 1], out.iloc[:, 2], out['_sim_score'])), out


def _excluded(cs, lk, rk, thresholds, ops):
    w = scenario.ConcreteWorld()
    lv = [r for r in cs['L']['rows'] if r[cs['L']['columns'].index('id')] == lk][0][cs['L']['columns'].index('attr')]
    rv = [r for r in cs['R']['rows'] if r[cs['R']['columns'].index('id')] == rk][0][cs['R']['columns'].index('attr')]
    lt, rt = w.tokset(lv), w.tokset(rv)
    n, m = len(lt), len(rt)
    if n == 0 and m == 0:
        return True
    if n and m:
        o = ref.overlap_size(lt, rt)
        raw, rep = ref.raw_score(cs['measure'], n, m, o), ref.reported_score(cs['measure'], n, m, o)
        for t in thresholds:
            for op in ops:
                if bool(ref.OPS[op](raw, t)) != bool(ref.OPS[op](rep, t)):
                    return True
    return False


def replay_h_laws(detail):
    repo.load()
    law = detail['law']
    s, s2 = detail['scenario'], detail['scenario2']
    if detail.get('order') == 'identity' and law == 'transpose':
        # realise the arbitrary global order by filler rows (same fillers in both orientations:
        # they are appended to the right table of the first orientation = left table of the second)
        s = add_order_fillers(s)
        s2 = dict(s2, L=s['R'], R=s['L'])
    lines, bad = ['law: %s, entry %s' % (law, s['entry'])], False
    lkeys = [r[s['L']['columns'].index('id')] for r in s['L']['rows']]
    rkeys = [r[s['R']['columns'].index('id')] for r in s['R']['rows']]
    try:
        if law == 'transpose':
            A, oa = _join_pairs(s)
            B, ob = _join_pairs(s2)
            Bt = dict(((b, a), v) for (a, b), v in B.items())
            lines += ['join(A,B):\n%s' % oa.to_string(), 'join(B,A):\n%s' % ob.to_string()]
            for lk in lkeys:
                for rk in rkeys:
                    if _excluded(s, lk, rk, [s['threshold']], [s['comp_op']]):
                        continue
                    pk = (lk, rk)
                    if (pk in A) != (pk in Bt) or (pk in A and A[pk] != Bt[pk]):
                        bad = True
        elif law == 'refine':
            A, oa = _join_pairs(s)
            B, ob = _join_pairs(s2)
            lines += ['threshold %r:\n%s' % (s['threshold'], oa.to_string()), 'threshold %r:\n%s' % (s2['threshold'], ob.to_string())]
            for lk in lkeys:
                for rk in rkeys:
                    if _excluded(s, lk, rk, [s['threshold'], s2['threshold']], ['>=']):
                        continue
                    pk = (lk, rk)
                    want = pk in A and A[pk] >= s2['threshold']
                    if (pk in B) != want or (pk in B and B[pk] != A[pk]):
                        bad = True
        else:
            res = {}
            for op in ('>=', '>', '='):
                res[op], o = _join_pairs(dict(s, comp_op=op))
                lines.append("op %s:\n%s" % (op, o.to_string()))
            for lk in lkeys:
                for rk in rkeys:
                    if _excluded(s, lk, rk, [s['threshold']], ['>=', '>', '=']):
                        continue
                    pk = (lk, rk)
                    ge, gt, eq = pk in res['>='], pk in res['>'], pk in res['=']
                    if ge != (gt or eq) or (gt and eq):
                        bad = True
    except Exception as e:
        lines.append('raised %s: %s' % (type(e).__name__, e))
        bad = True
    lines.append('law %s' % ('VIOLATED' if bad else 'holds'))
    return bad, '\n'.join(lines)


def replay_h_pipe(detail):
    repo.load()
    from harness import h_laws
    s = detail['scenario']
    ssj = repo.mod('')
    lines, bad = [], False
    try:
        J, oj = _join_pairs(s)
        L, R = scenario.real_frames(s)
        tok = scenario.real_tokenizer(s)
        first = detail['first']
        if first == 'OverlapFilter':
            f = ssj.OverlapFilter(tok, 1)
        else:
            f = getattr(ssj, first)(tok, s['measure'] if s['measure'] in ('JACCARD', 'COSINE', 'DICE', 'OVERLAP') else 'JACCARD',
                                    s['threshold'], s['allow_empty'])
        cand = f.filter_tables(L, R, 'id', 'id', 'attr', 'attr', n_jobs=detail['n_jobs2'], show_progress=False)
        M = ssj.apply_matcher(cand, 'l_id', 'r_id', L, R, 'id', 'id', 'attr', 'attr', tok,
                              h_laws.raw_sim_function(s['measure']), s['threshold'], s['comp_op'],
                              n_jobs=detail['n_jobs2'], show_progress=False)
        # apply_matcher hands an empty candidate set back unchanged (no score column)
        P = {} if len(M) == 0 else dict(((int(a), int(b)), sc) for a, b, sc in zip(M['l_id'], M['r_id'], M['_sim_score']))
        lines += ['join:\n%s' % oj.to_string(), '%s.filter_tables + apply_matcher:\n%s' % (first, M.to_string())]
        rounded = s['measure'] in ('JACCARD', 'COSINE', 'DICE')
        for lk in [r[s['L']['columns'].index('id')] for r in s['L']['rows']]:
            for rk in [r[s['R']['columns'].index('id')] for r in s['R']['rows']]:
                if _excluded(s, lk, rk, [s['threshold']], [s['comp_op']]):
                    continue
                pk = (lk, rk)
                if (pk in J) != (pk in P):
                    bad = True
                elif pk in J and (round(J[pk], 4) if rounded else J[pk]) != (round(P[pk], 4) if rounded else P[pk]):
                    bad = True
    except Exception as e:
        lines.append('raised %s: %s' % (type(e).__name__, e))
        bad = True
    lines.append('join and pipeline %s' % ('DIFFER' if bad else 'agree'))
    return bad, '\n'.join(lines)


KINDS['h_laws'] = replay_h_laws
KINDS['h_pipe'] = replay_h_pipe


def replay_h_t1(detail):
    """token ordering on real strings with the real WhitespaceTokenizer"""
    repo.load()
    from py_stringmatching import WhitespaceTokenizer
    to = repo.mod('utils.token_ordering')
    cs = detail['scenario']
    tok = WhitespaceTokenizer(return_set=True)
    L = [tuple(r) for r in cs['L']['rows']]
    R = [tuple(r) for r in cs['R']['rows']]
    ordering = to.gen_token_ordering_for_tables([L, R], [1, 1], tok)
    lines = ['rows: %r %r' % ([r[1] for r in L], [r[1] for r in R]), 'ordering: %r' % (ordering,)]
    bad = len(set(ordering.values())) != len(ordering)
    freq = {}
    for r in L + R:
        toks = tok.tokenize(r[1])
        for t in toks:
            freq[t] = freq.get(t, 0) + 1
        o = to.order_using_token_ordering(toks, ordering)
        if len(o) != len(toks) or any(not (a < b) for a, b in zip(o, o[1:])):
            lines.append('row %r ordered as %r' % (r[1], o))
            bad = True
    want = sorted(freq, key=lambda t: (freq[t], t))
    got = sorted(ordering, key=lambda t: ordering[t])
    if want != got:
        lines.append('rank order %r, expected (frequency, token) order %r' % (got, want))
        bad = True
    return bad, '\n'.join(lines)


KINDS['h_t1'] = replay_h_t1


def replay_h_ed_rel(detail):
    repo.load()
    from py_stringmatching import QgramTokenizer
    from py_stringmatching.similarity_measure.levenshtein import Levenshtein
    cs = detail['scenario']
    law = detail['law']
    ssj = repo.mod('')
    tok = QgramTokenizer(qval=cs['q'], padding=cs['padding'], return_set=False)
    L, R = scenario.real_frames(cs)
    tau = cs['threshold']

    def join(a, b, t, op):
        out = ssj.edit_distance_join(a, b, 'id', 'id', 'attr', 'attr', t, op, False, None, None, 'l_', 'r_', True, 1, False, tok)
        return dict(((int(x), int(y)), s) for x, y, s in zip(out.iloc[:, 1], out.iloc[:, 2], out['_sim_score']))
    lval = dict((r[0], r[1]) for r in cs['L']['rows'])
    rval = dict((r[0], r[1]) for r in cs['R']['rows'])

    def shares(a, b):
        tb = tok.tokenize(b)
        return any(x in tb for x in tok.tokenize(a))
    lines = ['law %s tau=%r q=%d padding=%r\nleft:\n%s\nright:\n%s' % (law, tau, cs['q'], cs['padding'], L.to_string(), R.to_string())]
    bad = False
    try:
        A = join(L, R, tau, '<=')
        lines.append('join: %r' % A)
        if law == 'transpose':
            B = join(R, L, tau, '<=')
            Bt = dict(((y, x), v) for (x, y), v in B.items())
            lines.append('join(B,A) transposed: %r' % Bt)
            bad = A != Bt
        elif law == 'refine':
            t2 = detail['tau2']
            B = join(L, R, t2, '<=')
            lines.append('join at %r: %r' % (t2, B))
            for pk in set(A) | set(B):
                want = pk in A and A[pk] <= t2
                if (pk in B) != want and shares(lval[pk[0]], rval[pk[1]]):
                    bad = True
                if pk in A and pk in B and A[pk] != B[pk]:
                    bad = True
        elif law == 'partition':
            LT, EQ = join(L, R, tau, '<'), join(L, R, tau, '=')
            lines.append("'<': %r  '=': %r" % (LT, EQ))
            for pk in set(A) | set(LT) | set(EQ):
                if (pk in A) != ((pk in LT) or (pk in EQ)) or (pk in LT and pk in EQ):
                    bad = True
        else:
            f = ssj.PrefixFilter(tok, 'EDIT_DISTANCE', tau)
            cand = f.filter_tables(L, R, 'id', 'id', 'attr', 'attr', show_progress=False)
            M = ssj.apply_matcher(cand, 'l_id', 'r_id', L, R, 'id', 'id', 'attr', 'attr', None,
                                  Levenshtein().get_raw_score, tau, '<=', show_progress=False)
            P = dict(((int(x), int(y)), s) for x, y, s in zip(M['l_id'], M['r_id'], M['_sim_score']))
            lines.append('pipeline: %r' % P)
            for pk in A:
                if pk not in P or P[pk] != A[pk]:
                    bad = True
            for pk in P:
                if pk not in A and shares(lval[pk[0]], rval[pk[1]]):
                    bad = True
    except Exception as e:
        lines.append('raised %s: %s' % (type(e).__name__, e))
        bad = True
    return bool(bad), '\n'.join(lines)


KINDS['h_ed_rel'] = replay_h_ed_rel


def replay_h_verify(detail):
    """(measure, sizes, threshold, operator) -> canonical pair through the public join."""
    measure = detail['measure']
    n, m, o, t, op = detail['n'], detail['m'], detail['o'], detail['t'], detail['comp_op']
    entry = {'JACCARD': 'jaccard_join', 'COSINE': 'cosine_join', 'DICE': 'dice_join',
             'OVERLAP_COEFFICIENT': 'overlap_coefficient_join'}[measure]
    lines = ['%s sizes (%d,%d) overlap %d threshold %r op %s; raw score %r' % (
        measure, n, m, o, t, op, ref.raw_score(measure, n, m, o))]
    for (a, b) in ((n, m), (m, n)):
        L, R = _canon_tables(a, b, o)
        cs = dict(threshold=t, comp_op=op, allow_empty=True, allow_missing=False, out_sim_score=True, n_jobs=1,
                  l_key='id', r_key='id', l_attr='attr', r_attr='attr', l_out_attrs=None, r_out_attrs=None,
                  l_out_prefix='l_', r_out_prefix='r_', tok_return_set=True, measure=measure, L=L, R=R,
                  entry=entry, kind='join')
        for p in ('C01', 'C02'):
            ok, text = _check_api(cs, p)
            if ok:
                return True, '\n'.join(lines + [text])
        lines.append(text)
    return False, '\n'.join(lines)


KINDS['h_verify'] = replay_h_verify
