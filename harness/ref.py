"""Reference semantics (brute force, three-line formulas) used as the oracle both on symbolic values
(inside pathsym paths, where `==` on tokens is a solver decision) and on concrete values (replays
and trace validation on the real stack)."""
import math
import operator
from fractions import Fraction

OPS = {'>=': operator.ge, '>': operator.gt, '<=': operator.le, '<': operator.lt,
       '=': operator.eq, '!=': operator.ne}

SET_MEASURES = ('JACCARD', 'COSINE', 'DICE', 'OVERLAP_COEFFICIENT', 'OVERLAP')


def as_set(tokens):
    out = []
    for t in tokens:
        dup = False
        for u in out:
            if t == u:
                dup = True
                break
        if not dup:
            out.append(t)
    return out


def overlap_size(a, b):
    """|set(a) & set(b)| for token lists that are already duplicate free."""
    o = 0
    for x in a:
        for y in b:
            if x == y:
                o += 1
                break
    return o


def bag_overlap(a, b):
    """multiset intersection size."""
    b = list(b)
    used = [False] * len(b)
    o = 0
    for x in a:
        for j, y in enumerate(b):
            if not used[j] and x == y:
                used[j] = True
                o += 1
                break
    return o


def raw_score(measure, n, m, o):
    """The similarity exactly as py_stringmatching computes it from the set sizes (doubles)."""
    if n == 0 and m == 0:
        return 1.0
    if n == 0 or m == 0:
        return 0.0 if measure != 'OVERLAP' else 0
    if measure == 'JACCARD':
        if o == n and o == m:
            return 1.0
        return float(o) / float(n + m - o)
    if measure == 'COSINE':
        if o == n and o == m:
            return 1.0
        return float(o) / (math.sqrt(float(n)) * math.sqrt(float(m)))
    if measure == 'DICE':
        if o == n and o == m:
            return 1.0
        return 2.0 * float(o) / float(n + m)
    if measure == 'OVERLAP_COEFFICIENT':
        return float(o) / float(min(n, m))
    if measure == 'OVERLAP':
        return o
    raise ValueError(measure)


def exact_score(measure, n, m, o):
    """Exact rational value (cosine: its square) - for margins like 1e-4."""
    if measure == 'JACCARD':
        return Fraction(o, n + m - o)
    if measure == 'DICE':
        return Fraction(2 * o, n + m)
    if measure == 'OVERLAP_COEFFICIENT':
        return Fraction(o, min(n, m))
    raise ValueError(measure)


def reported_score(measure, n, m, o):
    r = raw_score(measure, n, m, o)
    if measure in ('JACCARD', 'COSINE', 'DICE'):
        return round(r, 4)
    return r


def qualifies(measure, n, m, o, op, threshold):
    """C01's 'satisfies': comparison holds for the raw double and for the reported (rounded)
    value.  Works with a symbolic threshold (returns a SymBool then)."""
    f = OPS[op]
    raw = raw_score(measure, n, m, o)
    rep = reported_score(measure, n, m, o)
    a = f(raw, threshold)
    if rep == raw:
        return a
    b = f(rep, threshold)
    return _and(a, b)


def may_qualify(measure, n, m, o, op, threshold):
    """C02: an output row is legitimate if the comparison holds for the raw or the reported value."""
    f = OPS[op]
    raw = raw_score(measure, n, m, o)
    rep = reported_score(measure, n, m, o)
    a = f(raw, threshold)
    if rep == raw:
        return a
    b = f(rep, threshold)
    return _or(a, b)


def _and(a, b):
    if isinstance(a, bool) and isinstance(b, bool):
        return a and b
    from engine.pathsym.core import sym_and
    return sym_and(a, b)


def _or(a, b):
    if isinstance(a, bool) and isinstance(b, bool):
        return a or b
    from engine.pathsym.core import sym_or
    return sym_or(a, b)


def levenshtein(s, t):
    """Plain DP over sequences of comparable characters (concrete use)."""
    n, m = len(s), len(t)
    prev = list(range(m + 1))
    for i in range(1, n + 1):
        cur = [i] + [0] * m
        for j in range(1, m + 1):
            cost = 0 if s[i - 1] == t[j - 1] else 1
            cur[j] = min(prev[j] + 1, cur[j - 1] + 1, prev[j - 1] + cost)
        prev = cur
    return prev[m]


def qgrams(s, q, padding=True, pre='#', suf='$'):
    if padding:
        s = pre * (q - 1) + s + suf * (q - 1)
    if len(s) < q:
        return []
    return [s[i:i + q] for i in range(len(s) - q + 1)]


def same_value(a, b):
    """cell-value equality where NaN equals NaN and 1 equals 1.0."""
    if a is None or b is None:
        return (a is None or (isinstance(a, float) and a != a)) and \
               (b is None or (isinstance(b, float) and b != b))
    if isinstance(a, float) and a != a:
        return isinstance(b, float) and b != b
    if isinstance(b, float) and b != b:
        return False
    return a == b


def is_nan(x):
    return isinstance(x, float) and x != x
