"""Replay of a counterexample on the real stack (real pandas, real py_stringmatching tokenizers, real
joblib), through the public entry points of the unpatched code in $VERIF_REPO (default /repo).

A replay script embeds the JSON `detail` of a violation and calls main(detail): exit status 1 and a
line `REPRODUCED ...` if the property's oracle fails on the concrete run, 0 otherwise.
"""
import json
import os
import sys
import warnings

warnings.filterwarnings('ignore')


def add_order_fillers(cs):
    """The scenario was explored under an arbitrary global token order = numeric order of the
    words.  Make the real frequency order realise it: append single-token rows to the right table
    so that word frequencies are non-decreasing in word order (ties are alphabetical = numeric)."""
    counts = {}
    for side in ('L', 'R'):
        t = cs[side]
        j = t['columns'].index(cs['l_attr'] if side == 'L' else cs['r_attr'])
        for r in t['rows']:
            v = r[j]
            if isinstance(v, str):
                for wd in set(v.split()):
                    counts[wd] = counts.get(wd, 0) + 1
    words = sorted(counts)
    prev = 0
    fillers = []
    for wd in words:
        want = max(counts[wd], prev)
        fillers += [wd] * (want - counts[wd])
        prev = want
    if not fillers:
        return cs
    cs = json.loads(json.dumps(cs))
    R = cs['R']
    kj = R['columns'].index(cs['r_key'])
    aj = R['columns'].index(cs['r_attr'])
    base = 900
    for i, wd in enumerate(fillers):
        row = ['fill'] * len(R['columns'])
        row[kj] = base + i
        row[aj] = wd
        R['rows'].append(row)
        R['index'].append(base + i)
    return cs


def run(detail, verbose=True):
    """returns (reproduced: bool, text)"""
    sys.path.insert(0, os.path.dirname(os.path.dirname(os.path.abspath(__file__))))
    from harness import replay_kinds
    kind = detail.get('harness', 'h_join')
    fn = replay_kinds.KINDS[kind]
    return fn(detail)


def main(detail):
    ok, text = run(detail)
    print(text)
    if ok:
        print('REPRODUCED property=%s clause=%s' % (detail.get('prop'), detail.get('clause')))
        return 1
    print('NOT-REPRODUCED property=%s' % detail.get('prop'))
    return 0


TEMPLATE = '''#!/usr/bin/env python
"""Replay of a counterexample found by /verif (property %(prop)s, %(clause)s).
%(msg)s
Run:  /verif/.venv/bin/python %(path)s      (uses $VERIF_REPO, default /repo)
Exit status 1 = the violation reproduces on the real stack, 0 = it does not."""
import json, sys
sys.path.insert(0, '/verif')
from harness import replay
DETAIL = json.loads(r"""%(json)s""")
if __name__ == '__main__':
    sys.exit(replay.main(DETAIL))
'''


def write_script(detail, directory='/verif/replays'):
    import hashlib
    os.makedirs(directory, exist_ok=True)
    js = json.dumps(detail, indent=1, sort_keys=True, default=str)
    hsh = hashlib.sha256(js.encode()).hexdigest()[:10]
    path = os.path.join(directory, '%s_%s.py' % (detail.get('check', detail.get('prop', 'X')), hsh))
    with open(path, 'w') as f:
        f.write(TEMPLATE % dict(prop=detail.get('prop'), clause=detail.get('clause'),
                                msg=str(detail.get('msg', '')).replace('"""', "'''"),
                                path=path, json=js.replace('"""', '\\"\\"\\"')))
    return path
