"""Building symbolic scenarios for the public entry points, running them on the model (pathsym) and on
the real stack (concrete), with one shared description format (JSON-able after concretisation)."""
import copy
import json
import math

from engine import repo
from engine.pathsym import pdmodel, symdata
from engine.pathsym.core import (SymBool, SymFloat, SymInt, Violation, model_value, sym_not)
from . import oracle, ref

JOIN_MEASURE = {'jaccard_join': 'JACCARD', 'cosine_join': 'COSINE', 'dice_join': 'DICE',
                'overlap_coefficient_join': 'OVERLAP_COEFFICIENT', 'overlap_join': 'OVERLAP',
                'edit_distance_join': 'EDIT_DISTANCE'}


# ---- worlds -----------------------------------------------------------------------------------

class SymWorld(object):
    """values are symdata.Cell"""

    def missing(self, v):
        if isinstance(v, symdata.Cell):
            return bool(v.missing)
        return bool(pdmodel.is_missing_value(v))

    def tokset(self, v):
        return ref.as_set(v.token_list())

    def tokbag(self, v):
        return v.token_list()

    def nonempty_string(self, v):
        return bool(v)


class ConcreteWorld(object):
    """values are str / None / NaN; whitespace tokens."""

    def missing(self, v):
        return v is None or (isinstance(v, float) and v != v)

    def tokset(self, v):
        return ref.as_set(v.split())

    def tokbag(self, v):
        return v.split()

    def nonempty_string(self, v):
        return bool(v)


# ---- table construction -----------------------------------------------------------------------

def build_table(c, side, nrows, k, kmin=0, missing='sym', bag=False, nonempty='sym',
                col_order=None, key_base=None, index=None, extra=('x', 'y'), key_name='id',
                extra_none=False):
    """side 'L'/'R'.  Columns: key `id`, join attribute `attr`, extras.  Returns SymTable."""
    key_base = key_base if key_base is not None else (1 if side == 'L' else 11)
    cols = [key_name, 'attr'] + list(extra)
    order = [key_name if x == 'id' else x for x in col_order] if col_order else cols
    rows = []
    for i in range(nrows):
        vals = {key_name: key_base + i,
                'attr': symdata.Cell(c, '%s%d' % (side, i), k, kmin, missing, bag, nonempty)}
        for j, e in enumerate(extra):
            vals[e] = '%s%d.%s' % (side, i, e)
            if extra_none and i == 0 and j == 0:
                vals[e] = None          # a missing value in an output attribute (not the join attribute)
        rows.append(tuple(vals[col] for col in order))
    idx = index if index is not None else list(range(nrows))
    return symdata.SymTable(side, order, rows, idx)


def table_dict(t):
    return {'columns': list(t.columns), 'rows': list(t.rows), 'index': list(t.index)}


# ---- calling ----------------------------------------------------------------------------------

def call_entry(s, L, R, tok):
    """Invoke the public entry point named in scenario s on frames L, R with tokenizer tok."""
    ssj = repo.mod('')
    e = s['entry']
    kw = dict(l_out_attrs=s.get('l_out_attrs'), r_out_attrs=s.get('r_out_attrs'),
              l_out_prefix=s['l_out_prefix'], r_out_prefix=s['r_out_prefix'],
              n_jobs=s['n_jobs'], show_progress=False)
    if e in ('jaccard_join', 'cosine_join', 'dice_join', 'overlap_coefficient_join'):
        return getattr(ssj, e)(L, R, s['l_key'], s['r_key'], s['l_attr'], s['r_attr'], tok,
                               s['threshold'], s['comp_op'], s['allow_empty'], s['allow_missing'],
                               out_sim_score=s['out_sim_score'], **kw)
    if e == 'overlap_join':
        return ssj.overlap_join(L, R, s['l_key'], s['r_key'], s['l_attr'], s['r_attr'], tok,
                                s['threshold'], s['comp_op'], s['allow_missing'],
                                out_sim_score=s['out_sim_score'], **kw)
    if e == 'edit_distance_join':
        return ssj.edit_distance_join(L, R, s['l_key'], s['r_key'], s['l_attr'], s['r_attr'],
                                      s['threshold'], s['comp_op'], s['allow_missing'],
                                      out_sim_score=s['out_sim_score'], tokenizer=tok, **kw)
    if e == 'filter_tables':
        f = make_filter(s, tok)
        if s['filter'] == 'OverlapFilter':
            return f.filter_tables(L, R, s['l_key'], s['r_key'], s['l_attr'], s['r_attr'],
                                   out_sim_score=s['out_sim_score'], **kw)
        return f.filter_tables(L, R, s['l_key'], s['r_key'], s['l_attr'], s['r_attr'], **kw)
    raise ValueError(e)


def make_filter(s, tok):
    ssj = repo.mod('')
    cls = getattr(ssj, s['filter'])
    if s['filter'] == 'OverlapFilter':
        return cls(tok, s['threshold'], s['comp_op'], s['allow_missing'])
    return cls(tok, s['measure'], s['threshold'], s['allow_empty'], s['allow_missing'])


# ---- concretisation and the real stack --------------------------------------------------------

def concretize_scenario(s, m, extra=None):
    """Scenario with symbolic parts -> plain JSON-able dict with strings for cells.  `extra`
    (e.g. the output rows of the symbolic run) is rendered with the same word map and returned
    under the key '_extra'."""
    out = {}
    if extra is not None:
        out['_extra'] = model_value(m, extra)
    for k, v in s.items():
        if k in ('L', 'R'):
            out[k] = {'columns': list(v['columns']), 'index': list(v['index']),
                      'rows': [[model_value(m, x) for x in r] for r in v['rows']]}
        else:
            out[k] = model_value(m, v)
    vals = symdata.collect_token_values(out, [])
    wmap = symdata.word_map(vals)
    return symdata.render(out, wmap)


def real_frames(cs):
    import pandas as pd
    fr = {}
    for side in ('L', 'R'):
        t = cs[side]
        data = {}
        for j, col in enumerate(t['columns']):
            vals = [r[j] for r in t['rows']]
            if col in ('id', cs.get('l_key'), cs.get('r_key')) and col != 'attr':
                data[col] = pd.Series(vals, index=t['index'], dtype='int64' if all(
                    isinstance(v, int) for v in vals) else object)
            else:
                data[col] = pd.Series(vals, index=t['index'], dtype=object)
        fr[side] = pd.DataFrame(data, columns=t['columns'], index=t['index'])
    return fr['L'], fr['R']


def real_tokenizer(cs):
    from py_stringmatching import WhitespaceTokenizer
    return WhitespaceTokenizer(return_set=bool(cs.get('tok_return_set', False)))


def run_real(cs):
    """Run the concretised scenario through the real public API on real pandas."""
    repo.load()
    L, R = real_frames(cs)
    tok = real_tokenizer(cs)
    res = call_entry(cs, L, R, tok)
    return res, tok, (L, R)


def concrete_tables(cs):
    d = dict(cs)
    for side in ('L', 'R'):
        d[side] = {'columns': cs[side]['columns'], 'index': cs[side]['index'],
                   'rows': [tuple(r) for r in cs[side]['rows']]}
    return d


def norm_rows(res):
    """multiset key of a Result for model-vs-real comparison."""
    def nv(x):
        if x is None or (isinstance(x, float) and x != x):
            return 'NaN'
        if isinstance(x, float) and x == int(x):
            return int(x)
        if hasattr(x, 'item'):
            try:
                return nv(x.item())
            except Exception:
                return x
        return x
    return sorted((tuple(nv(v) for v in r) for r in res.rows), key=repr)
