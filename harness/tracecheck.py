"""Trace validation shared by the harnesses: on every N-th path that ended without a violation, the
solver's model is concretised and pushed through the REAL stack by the same code that replays
counterexamples (harness/replay_kinds.py).  If the real stack violates the property there although
the model run did not, that is a counterexample of its own (it is replayed again by the check before
it counts); otherwise the path is counted in `traces_validated_against_impl`."""
from engine.pathsym.core import Violation

_COUNT = {}


def maybe_validate(c, kind, detail_fn, every, prop):
    """detail_fn: model -> replay detail (with harness kind).  Returns True if a validation ran."""
    if not every:
        return False
    n = _COUNT.get(kind, 0) + 1
    _COUNT[kind] = n
    if n % every:
        return False
    from . import replay_kinds
    d = detail_fn(c.get_model())
    d = dict(d)
    d['prop'] = prop
    d['check'] = prop
    d.setdefault('clause', 'trace-validation')
    try:
        bad, text = replay_kinds.KINDS[kind](d)
    except Exception as e:       # the replay machinery itself failed: harness error, not a finding
        from engine.pathsym.core import Inconclusive
        raise Inconclusive('trace validation could not run (%s): %s' % (type(e).__name__, e))
    if bad:
        d['msg'] = 'real stack violates the property on a scenario the model run accepted: ' + text[-400:]
        raise Violation('trace validation: ' + d['msg'], d)
    return True
