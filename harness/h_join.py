"""H-API: the public joins / filter_tables on symbolic tables over the pandas model, all oracles.

cfg keys (defaults in DEFAULTS): entry, filter, measure, nl, nr, k, kmin, missing, nonempty, bag,
tok_return_set, thresholds, comp_ops, allow_empty, allow_missing, out_sim_score, n_jobs,
out_attrs (list of (l_out, r_out) options), col_orders, index_labels, props (set of property ids
this run reports), validate_every.
"""
import itertools

from engine import repo
from engine.pathsym import pdmodel, symdata
from engine.pathsym.core import Inconclusive, Violation, model_value
from . import oracle, ref, scenario

DEFAULTS = dict(entry='jaccard_join', filter=None, measure=None, nl=2, nr=2, k=2, kmin=0,
                missing=False, nonempty=False, bag=False, tok_return_set=[True],
                thresholds=[0.5], comp_ops=['>='], allow_empty=[True], allow_missing=[False],
                out_sim_score=[True], n_jobs=[1], out_attrs=[(None, None)],
                col_orders=[None], index_labels=[None], props=None, validate_every=0,
                l_out_prefix='l_', r_out_prefix='r_', kind='join', cpu_count=None,
                extra=('x', 'y'), r_key='id', extra_none=[False])

_BIND = None
_COUNTER = [0]


def bindings():
    global _BIND
    if _BIND is None:
        _BIND = repo.model_bindings()
    return _BIND


def _opt(c, name, options):
    return symdata.choice(c, name, options)


def make(cfg_in):
    cfg = dict(DEFAULTS)
    cfg.update(cfg_in)
    props = set(cfg['props']) if cfg['props'] else None

    def h(c):
        entry = cfg['entry']
        measure = cfg['measure'] or scenario.JOIN_MEASURE.get(entry)
        tok_mode = _opt(c, 'tokmode', cfg['tok_return_set'])
        col_order = _opt(c, 'colorder', cfg['col_orders'])
        idx = _opt(c, 'index', cfg['index_labels'])
        bag = cfg['bag'] and not tok_mode
        xnone = _opt(c, 'extranone', cfg['extra_none'])
        Lt = scenario.build_table(c, 'L', cfg['nl'], cfg['k'], cfg['kmin'], cfg['missing'], bag,
                                  cfg['nonempty'], col_order[0] if col_order else None,
                                  index=list(idx[0])[:cfg['nl']] if idx else None, extra=cfg['extra'],
                                  extra_none=xnone)
        Rt = scenario.build_table(c, 'R', cfg['nr'], cfg['k'], cfg['kmin'], cfg['missing'], bag,
                                  cfg['nonempty'], col_order[1] if col_order else None,
                                  index=list(idx[1])[:cfg['nr']] if idx else None, extra=cfg['extra'],
                                  key_name=cfg['r_key'], extra_none=xnone)
        lo, ro = _opt(c, 'outattrs', cfg['out_attrs'])
        l_key = 'id'
        if cfg.get('l_key_is_attr'):
            # the left table is keyed by its join attribute (no separate key column): values must be
            # present and pairwise different strings
            j = Lt.columns.index('id')
            Lt.columns.pop(j)
            Lt.rows = [r[:j] + r[j + 1:] for r in Lt.rows]
            l_key = 'attr'
            cells = [r[Lt.columns.index('attr')] for r in Lt.rows]
            for a in range(len(cells)):
                c.assume(cells[a].ntok >= 1)
                for b_ in range(a + 1, len(cells)):
                    c.assume(cells[a].toks[0] != cells[b_].toks[0])
        s = dict(entry=entry, filter=cfg['filter'], measure=measure, kind=cfg['kind'],
                 threshold=_opt(c, 'thr', cfg['thresholds']),
                 comp_op=_opt(c, 'op', cfg['comp_ops']),
                 allow_empty=_opt(c, 'ae', cfg['allow_empty']),
                 allow_missing=_opt(c, 'am', cfg['allow_missing']),
                 out_sim_score=_opt(c, 'oss', cfg['out_sim_score']),
                 n_jobs=_opt(c, 'nj', cfg['n_jobs']),
                 l_key=l_key, r_key=cfg['r_key'], l_attr='attr', r_attr='attr',
                 l_out_attrs=list(lo) if lo is not None else None,
                 r_out_attrs=[cfg['r_key'] if x == 'id' else x for x in ro] if ro is not None else None,
                 l_out_prefix=cfg['l_out_prefix'], r_out_prefix=cfg['r_out_prefix'],
                 tok_return_set=tok_mode)
        if entry == 'filter_tables' and cfg['filter'] != 'OverlapFilter':
            s['out_sim_score'] = False
            s['comp_op'] = '>='
        if entry == 'overlap_join' or cfg['filter'] == 'OverlapFilter':
            s['allow_empty'] = False
        if callable(s['threshold']):
            s['threshold'] = s['threshold'](c)
        s['L'] = scenario.table_dict(Lt)
        s['R'] = scenario.table_dict(Rt)
        tok = symdata.AbsTok(return_set=tok_mode)
        Lf, Rf = Lt.frame(), Rt.frame()
        snapL, snapR = Lf.snapshot(), Rf.snapshot()

        def detail(prop, clause, msg):
            def mk(m):
                return {'prop': prop, 'clause': clause, 'msg': msg, 'harness': 'h_join',
                        'scenario': scenario.concretize_scenario(s, m)}
            return mk

        b = dict(bindings())
        if cfg['cpu_count']:
            import types
            ncpu = c.int_var('ncpu', 1, cfg['cpu_count'])
            b[('utils.generic_helper', 'multiprocessing')] = types.SimpleNamespace(
                cpu_count=lambda: ncpu)
        with repo.patched(b):
            try:
                out = scenario.call_entry(s, Lf, Rf, tok)
            except Violation:
                raise
            except Exception as e:
                msg = 'valid call raised %s: %s' % (type(e).__name__, e)
                raise Violation(msg, detail('CRASH', 'call-succeeds', msg))
        if not isinstance(out, pdmodel.FakeFrame):
            msg = 'call returned %r, not a DataFrame' % type(out)
            raise Violation(msg, detail('C15', 'returns-frame', msg))
        res = oracle.Result.of(out)
        w = scenario.SymWorld()
        if entry == 'overlap_join' or cfg['filter'] == 'OverlapFilter':
            viols = oracle.check_overlap_filter_tables(s, w, res)
        else:
            viols = oracle.check_join_output(s, w, res)
        if tok.get_return_set() != tok_mode:
            viols.append(('C12', 'tokenizer-restored', 'tokenizer return_set is %r after the call, '
                          'was %r' % (tok.get_return_set(), tok_mode)))
        if Lf.snapshot() != snapL or Rf.snapshot() != snapR or Lf.mutations or Rf.mutations:
            viols.append(('C12', 'inputs-untouched', 'an input table was modified: %r %r'
                          % (Lf.mutations, Rf.mutations)))
        for (p, clause, msg) in viols:
            if props is None or p in props:
                raise Violation('%s/%s: %s' % (p, clause, msg), detail(p, clause, msg))
        _COUNTER[0] += 1
        tags = ['rows=%d' % len(res.rows)]
        if cfg['validate_every'] and _COUNTER[0] % cfg['validate_every'] == 0:
            m = c.get_model()
            cs = scenario.concretize_scenario(s, m, extra=[list(r) for r in res.rows])
            got = [tuple(r) for r in cs.pop('_extra')]
            validate_against_real(cs, res.columns, got, props)
            tags.append('validated')
        sample = None
        if _COUNTER[0] <= 3:
            m = c.get_model()
            cs = scenario.concretize_scenario(s, m, extra=[list(r) for r in res.rows])
            sample = {'output_rows': [list(map(_js, r)) for r in cs.pop('_extra')],
                      'scenario': _brief(cs)}
        return {'nontrivial': len(res.rows) > 0, 'tags': tags, 'sample': sample}

    return h


def _js(x):
    if isinstance(x, float) and x != x:
        return 'NaN'
    return x


def _brief(cs):
    return {'entry': cs['entry'], 'filter': cs.get('filter'), 'measure': cs['measure'],
            'threshold': cs['threshold'], 'comp_op': cs['comp_op'], 'n_jobs': cs['n_jobs'],
            'allow_empty': cs['allow_empty'], 'allow_missing': cs['allow_missing'],
            'out_sim_score': cs['out_sim_score'], 'l_out_attrs': cs['l_out_attrs'],
            'r_out_attrs': cs['r_out_attrs'], 'tok_return_set': cs['tok_return_set'],
            'L': cs['L'], 'R': cs['R']}


def validate_against_real(cs, columns, model_rows, props=None):
    """Trace validation: the same concrete inputs through real pandas / real tokenizer must give
    the rows the symbolic run produced (under the same model).  If the real stack misbehaves with
    respect to the property itself (raises, or its result fails the oracle) that is a counterexample
    (it is replayed like any other); a mere difference between model and real stack is a harness
    error (inconclusive)."""
    seq = {}
    if cs['n_jobs'] not in (1,):
        # keep it fast: real joblib process pools are exercised by replays only
        for key, val in repo.model_bindings().items():
            if key[1] in ('Parallel', 'delayed'):
                seq[key] = val

    def as_violation(msg):
        return Violation('real stack: ' + msg, {'prop': 'CRASH', 'clause': 'call-succeeds', 'msg': msg,
                                                'harness': 'h_join', 'scenario': cs})
    try:
        with repo.patched(seq):
            real, tok, _ = scenario.run_real(cs)
    except Exception as e:
        raise as_violation('valid call raised %s: %s' % (type(e).__name__, e))
    rr = oracle.Result.of(real)
    a = scenario.norm_rows(oracle.Result(columns, model_rows))
    b = scenario.norm_rows(rr)
    if list(rr.columns) != list(columns) or a != b:
        w = scenario.ConcreteWorld()
        cst = scenario.concrete_tables(cs)
        if cs.get('filter') == 'OverlapFilter' or cs['entry'] == 'overlap_join':
            viols = oracle.check_overlap_filter_tables(cst, w, rr)
        else:
            viols = oracle.check_join_output(cst, w, rr)
        for (p, clause, msg) in viols:
            if props is None or p in props:
                raise Violation('real stack: %s/%s: %s' % (p, clause, msg),
                                {'prop': p, 'clause': clause, 'msg': msg, 'harness': 'h_join',
                                 'scenario': cs})
        raise Inconclusive('trace validation: model and real stack disagree\n scenario=%r\n '
                           'model cols=%r rows=%r\n real cols=%r rows=%r'
                           % (cs, columns, a, list(rr.columns), b))


# ---- relational variant: the same call under two presentations ---------------------------------

def make_rel(cfg_in):
    """cfg['relate']: 'njobs' (n_jobs=1 vs every n_jobs in cfg['n_jobs']), 'perm' (rows of both
    tables permuted by a symbolic permutation), 'index' (index relabelled + extra column order).
    cfg['compare']: 'multiset' (rows without _id equal as multisets) or 'qualifying' (only pairs the
    oracle calls qualifying must agree - filters with superfluous candidates)."""
    cfg = dict(DEFAULTS)
    cfg.update(cfg_in)
    props = set(cfg['props']) if cfg['props'] else None

    def h(c):
        entry = cfg['entry']
        measure = cfg['measure'] or scenario.JOIN_MEASURE.get(entry)
        tok_mode = _opt(c, 'tokmode', cfg['tok_return_set'])
        Lt = scenario.build_table(c, 'L', cfg['nl'], cfg['k'], cfg['kmin'], cfg['missing'], False,
                                  cfg['nonempty'])
        Rt = scenario.build_table(c, 'R', cfg['nr'], cfg['k'], cfg['kmin'], cfg['missing'], False,
                                  cfg['nonempty'])
        lo, ro = _opt(c, 'outattrs', cfg['out_attrs'])
        s = dict(entry=entry, filter=cfg['filter'], measure=measure, kind=cfg['kind'],
                 threshold=_opt(c, 'thr', cfg['thresholds']), comp_op=_opt(c, 'op', cfg['comp_ops']),
                 allow_empty=_opt(c, 'ae', cfg['allow_empty']),
                 allow_missing=_opt(c, 'am', cfg['allow_missing']),
                 out_sim_score=_opt(c, 'oss', cfg['out_sim_score']), n_jobs=1,
                 l_key='id', r_key='id', l_attr='attr', r_attr='attr',
                 l_out_attrs=list(lo) if lo is not None else None,
                 r_out_attrs=list(ro) if ro is not None else None,
                 l_out_prefix='l_', r_out_prefix='r_', tok_return_set=tok_mode)
        if entry == 'filter_tables' and cfg['filter'] != 'OverlapFilter':
            s['out_sim_score'] = False
            s['comp_op'] = '>='
        if entry == 'overlap_join' or cfg['filter'] == 'OverlapFilter':
            s['allow_empty'] = False
        s['L'], s['R'] = scenario.table_dict(Lt), scenario.table_dict(Rt)
        s2 = dict(s)
        rel = cfg['relate']
        if rel == 'njobs':
            s2['n_jobs'] = _opt(c, 'nj', cfg['n_jobs'])
        elif rel == 'perm':
            import itertools
            pl = _opt(c, 'permL', list(itertools.permutations(range(cfg['nl']))))
            pr = _opt(c, 'permR', list(itertools.permutations(range(cfg['nr']))))
            s2['L'] = dict(s['L'], rows=[s['L']['rows'][i] for i in pl])
            s2['R'] = dict(s['R'], rows=[s['R']['rows'][i] for i in pr])
            s2['n_jobs'] = _opt(c, 'nj', cfg['n_jobs'])
            s['n_jobs'] = s2['n_jobs']
        elif rel == 'index':
            # relabelled index (with duplicate labels) and an unrelated extra column in both tables
            s2['L'] = dict(s['L'], index=[7, 7][:cfg['nl']] + list(range(100, 100 + max(0, cfg['nl'] - 2))),
                           columns=s['L']['columns'] + ['zz'], rows=[tuple(r) + ('L.zz%d' % i,) for i, r in enumerate(s['L']['rows'])])
            s2['R'] = dict(s['R'], index=['b', 'a', 'a'][:cfg['nr']],
                           columns=['zz'] + s['R']['columns'], rows=[('R.zz%d' % i,) + tuple(r) for i, r in enumerate(s['R']['rows'])])
        b = dict(bindings())
        if cfg['cpu_count']:
            import types
            ncpu = c.int_var('ncpu', 1, cfg['cpu_count'])
            b[('utils.generic_helper', 'multiprocessing')] = types.SimpleNamespace(
                cpu_count=lambda: ncpu)

        def detail(prop, clause, msg, which):
            def mk(m):
                return {'prop': prop, 'clause': clause, 'msg': msg, 'harness': 'h_rel',
                        'relate': rel, 'compare': cfg['compare'],
                        'scenario': scenario.concretize_scenario(which[0], m),
                        'scenario2': scenario.concretize_scenario(which[1], m)}
            return mk

        outs = []
        with repo.patched(b):
            for sc in (s, s2):
                Lf = pdmodel.FakeFrame(sc['L']['rows'], columns=sc['L']['columns'],
                                       index=sc['L']['index'])
                Rf = pdmodel.FakeFrame(sc['R']['rows'], columns=sc['R']['columns'],
                                       index=sc['R']['index'])
                tok = symdata.AbsTok(return_set=tok_mode)
                try:
                    outs.append(oracle.Result.of(scenario.call_entry(sc, Lf, Rf, tok)))
                except Violation:
                    raise
                except Exception as e:
                    msg = 'valid call raised %s: %s' % (type(e).__name__, e)
                    raise Violation(msg, detail('CRASH', 'call-succeeds', msg, (sc, sc)))
        a, bb = outs

        def rows_wo_id(r):
            j = r.columns.index('_id') if '_id' in r.columns else None
            return [tuple(v for i, v in enumerate(row) if i != j) for row in r.rows]

        ra, rb = rows_wo_id(a), rows_wo_id(bb)
        bad = None
        if a.columns != bb.columns:
            bad = 'columns differ: %r vs %r' % (a.columns, bb.columns)
        elif '_id' in bb.columns and [int(x) for x in bb.col('_id')] != list(range(len(bb.rows))):
            bad = '_id column is %r' % (bb.col('_id'),)
        elif cfg['compare'] == 'multiset':
            if not _same_multiset(ra, rb):
                bad = 'result rows differ: %r vs %r' % (ra, rb)
        else:
            # qualifying pairs must agree: use the join oracle on both
            w = scenario.SymWorld()
            for sc, r in ((s, a), (s2, bb)):
                for (p, clause, msg) in oracle.check_join_output(sc, w, r):
                    if p in ('C04', 'C01'):
                        bad = msg
        if bad:
            p = (cfg['props'] or ['C10'])[0]
            raise Violation('%s/%s: %s' % (p, rel, bad), detail(p, rel, bad, (s, s2)))
        tags = ['rows=%d' % len(ra)]
        from . import tracecheck
        if tracecheck.maybe_validate(c, 'h_rel', detail((cfg['props'] or ['C10'])[0], 'trace-validation', '-', (s, s2)),
                                     cfg.get('rel_validate_every', 400), (cfg['props'] or ['C10'])[0]):
            tags.append('validated')
        return {'nontrivial': len(ra) > 0, 'tags': tags, 'sample': None}

    return h


def _same_multiset(ra, rb):
    if len(ra) != len(rb):
        return False
    rb = list(rb)
    for r in ra:
        hit = None
        for i, q in enumerate(rb):
            if len(q) == len(r) and all(_veq(x, y) for x, y in zip(r, q)):
                hit = i
                break
        if hit is None:
            return False
        rb.pop(hit)
    return True


def _veq(x, y):
    if x is y:
        return True
    if isinstance(x, float) and isinstance(y, float) and x != x and y != y:
        return True
    if isinstance(x, symdata.Cell) or isinstance(y, symdata.Cell):
        return x is y
    return x == y


# ---- histories: two calls sharing tokenizer and frames ------------------------------------------

def make_history(cfg_in):
    """cfg['calls']: list of call configs (dicts with entry/filter/measure/threshold...).  A symbolic
    pair (first, second) of them runs on shared frames and tokenizer; the second result must equal
    the result of the same call on fresh objects, and the shared state must be as found."""
    cfg = dict(DEFAULTS)
    cfg.update(cfg_in)

    def h(c):
        tok_mode = _opt(c, 'tokmode', cfg['tok_return_set'])
        bag = cfg['bag'] and not tok_mode
        Lt = scenario.build_table(c, 'L', cfg['nl'], cfg['k'], cfg['kmin'], cfg['missing'], bag, False)
        Rt = scenario.build_table(c, 'R', cfg['nr'], cfg['k'], cfg['kmin'], cfg['missing'], bag, False)
        calls = cfg['calls']
        i1 = int(c.int_var('first', 0, len(calls) - 1))
        i2 = int(c.int_var('second', 0, len(calls) - 1))

        def scen(i):
            cc = calls[i]
            e = cc['entry']
            s = dict(entry=e, filter=cc.get('filter'), measure=cc.get('measure') or
                     scenario.JOIN_MEASURE.get(e), kind=cc.get('kind', 'join'),
                     threshold=cc['threshold'], comp_op=cc.get('comp_op', '>='),
                     allow_empty=cc.get('allow_empty', True),
                     allow_missing=cc.get('allow_missing', False),
                     out_sim_score=cc.get('out_sim_score', True), n_jobs=cc.get('n_jobs', 1),
                     l_key='id', r_key='id', l_attr='attr', r_attr='attr', l_out_attrs=None,
                     r_out_attrs=None, l_out_prefix='l_', r_out_prefix='r_', tok_return_set=tok_mode)
            if e == 'filter_tables' and cc.get('filter') != 'OverlapFilter':
                s['out_sim_score'] = False
            s['L'], s['R'] = scenario.table_dict(Lt), scenario.table_dict(Rt)
            return s
        s1, s2 = scen(i1), scen(i2)

        def detail(prop, clause, msg):
            def mk(m):
                return {'prop': prop, 'clause': clause, 'msg': msg, 'harness': 'h_hist',
                        'scenario': scenario.concretize_scenario(s1, m),
                        'scenario2': scenario.concretize_scenario(s2, m)}
            return mk

        tok = symdata.AbsTok(return_set=tok_mode)
        Lf, Rf = Lt.frame(), Rt.frame()
        snap = (Lf.snapshot(), Rf.snapshot())
        with repo.patched(bindings()):
            try:
                scenario.call_entry(s1, Lf, Rf, tok)
                mode_after_first = tok.get_return_set()
                shared = oracle.Result.of(scenario.call_entry(s2, Lf, Rf, tok))
                fresh = oracle.Result.of(scenario.call_entry(
                    s2, Lt.frame(), Rt.frame(), symdata.AbsTok(return_set=tok_mode)))
            except Violation:
                raise
            except Exception as e:
                msg = 'valid call raised %s: %s' % (type(e).__name__, e)
                raise Violation(msg, detail('CRASH', 'call-succeeds', msg))
        bad = None
        if mode_after_first != tok_mode or tok.get_return_set() != tok_mode:
            bad = ('tokenizer-restored', 'tokenizer return_set was %r, is %r after the first and %r '
                   'after the second call' % (tok_mode, mode_after_first, tok.get_return_set()))
        elif (Lf.snapshot(), Rf.snapshot()) != snap or Lf.mutations or Rf.mutations:
            bad = ('inputs-untouched', 'an input table was modified')
        elif shared.columns != fresh.columns or not _same_multiset(shared.rows, fresh.rows):
            bad = ('history-independent', 'second call returns %r after the first call but %r in '
                   'isolation' % (shared.rows, fresh.rows))
        if bad:
            raise Violation('C12/%s: %s' % bad, detail('C12', bad[0], bad[1]))
        return {'nontrivial': True, 'tags': ['pair=%d,%d' % (i1, i2)], 'sample': None}

    return h
