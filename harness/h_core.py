"""H-CORE: the per-split join / filter functions on token-rich symbolic rows (lists of tuples, no
pandas on the way in), arbitrary global token order, real or stubbed arithmetic kernel.

entry: 'set_sim_join' | 'oc_split' | 'filter_split' (with cfg['filter'])
kernel: 'real' (concrete thresholds) | 'contract' (stubs constrained by K, SymFloat threshold)
        | 'free' (unconstrained stubs: properties that hold whatever the arithmetic)
"""
import types

import z3

from engine import repo
from engine.pathsym import pdmodel, symdata
from engine.pathsym.core import (Inconclusive, SymInt, Violation, model_value, sym_and, sym_implies,
                                 as_bool_term)
from . import oracle, ref, scenario, tracecheck

DEFAULTS = dict(entry='set_sim_join', filter=None, measure='JACCARD', nl=1, nr=2, k=3, kmin=1,
                thresholds=[0.5], comp_ops=['>='], allow_empty=[True], out_sim_score=[True],
                out_attrs=[(None, None)], kernel='real', order='identity', props=None,
                nonempty=False, mono=False, validate_every=300)


class IdentityOrder(object):
    """Arbitrary-order stub: tokens are their own ranks (any injective rank assignment; that the
    real gen_token_ordering_for_tables produces one is obligation T1)."""

    def get(self, token, default=None):
        return token

    def __getitem__(self, token):
        return token


def _identity_ordering(table_list, attr_list, tokenizer, sim_measure_type='OVERLAP'):
    return IdentityOrder()


class KernelStub(object):
    """Stands for the four filter_utils functions: fresh bounded integers per distinct argument
    tuple; `contract` adds the clauses of K that engine E1 proves of the real functions."""

    def __init__(self, c, measure, mode, maxn):
        self.c = c
        self.measure = measure
        self.mode = mode
        self.maxn = maxn
        self._pl, self._lb, self._ub, self._al = {}, {}, {}, {}

    def pl(self, n):
        if n not in self._pl:
            if self.mode == 'contract':
                v = self.c.int_var('pl%d' % n, 0 if n == 0 else 1, n)
            else:
                v = self.c.int_var('pl%d' % n, -1, n + 1)
            self._pl[n] = v
        return self._pl[n]

    def lb(self, n):
        if n not in self._lb:
            hi = n if self.mode == 'contract' else self.maxn + 1
            self._lb[n] = self.c.int_var('lb%d' % n, 0, hi)
        return self._lb[n]

    def ub(self, n):
        if n not in self._ub:
            lo = n if self.mode == 'contract' else 0
            self._ub[n] = self.c.int_var('ub%d' % n, lo, self.maxn + 1)
        return self._ub[n]

    def alpha(self, n, m):
        if (n, m) not in self._al:
            self._al[(n, m)] = self.c.int_var('al%d_%d' % (n, m), 0, self.maxn + 1)
        return self._al[(n, m)]

    # the four functions, with the real signatures
    def get_prefix_length(self, num_tokens, sim_measure_type, threshold, tokenizer):
        return self.pl(int(num_tokens))

    def get_size_lower_bound(self, num_tokens, sim_measure_type, threshold):
        return self.lb(int(num_tokens))

    def get_size_upper_bound(self, num_tokens, sim_measure_type, threshold):
        return self.ub(int(num_tokens))

    def get_overlap_threshold(self, l_num_tokens, r_num_tokens, sim_measure_type, threshold,
                              tokenizer):
        return self.alpha(int(l_num_tokens), int(r_num_tokens))

    def assert_pair(self, qual, n, m, o):
        """K-pair for a (left size n, right size m, overlap o) pair; qual is the (possibly symbolic)
        condition 'the pair satisfies the threshold'."""
        if self.mode != 'contract' or n == 0 or m == 0:
            return
        concl = [self.lb(m) <= n, n <= self.ub(m), self.lb(n) <= m, m <= self.ub(n),
                 self.alpha(n, m) <= o, self.alpha(m, n) <= o,
                 self.pl(n) >= n - o + 1, self.pl(m) >= m - o + 1]
        t = z3.Implies(as_bool_term(qual), z3.And(*[as_bool_term(x) for x in concl]))
        self.c._assert(t)

    def assert_mono(self, sizes):
        """K-mono: the suffix length n - pl(n) is non-decreasing in n and grows by at most one per
        token (an E1 obligation of the real get_prefix_length)."""
        if self.mode != 'contract':
            return
        ss = sorted(set(s for s in sizes if s > 0))
        for a, b in zip(ss, ss[1:]):
            sa, sb = a - self.pl(a), b - self.pl(b)
            self.c._assert(as_bool_term(sym_and(sa <= sb, sb - sa <= b - a)))

    def bindings(self, modules):
        b = {}
        for m in modules:
            d = repo.mod(m).__dict__
            for f in ('get_prefix_length', 'get_size_lower_bound', 'get_size_upper_bound',
                      'get_overlap_threshold'):
                if f in d:
                    b[(m, f)] = getattr(self, f)
        return b


KERNEL_USERS = ['filter.size_filter', 'filter.prefix_filter', 'filter.position_filter',
                'filter.suffix_filter', 'index.position_index', 'index.prefix_index']
ORDER_USERS = ['join.set_sim_join', 'filter.prefix_filter', 'filter.position_filter',
               'filter.suffix_filter']

_BIND = None
_COUNTER = [0]


def base_bindings():
    global _BIND
    if _BIND is None:
        _BIND = repo.model_bindings()
    return _BIND


def make(cfg_in):
    cfg = dict(DEFAULTS)
    cfg.update(cfg_in)
    props = set(cfg['props']) if cfg['props'] else None

    def h(c):
        measure = cfg['measure']
        k = cfg['k']
        lo, ro = symdata.choice(c, 'outattrs', cfg['out_attrs'])
        s = dict(entry=cfg['entry'], filter=cfg['filter'], measure=measure,
                 kind='filter' if cfg['entry'] == 'filter_split' else 'join',
                 comp_op=symdata.choice(c, 'op', cfg['comp_ops']),
                 allow_empty=symdata.choice(c, 'ae', cfg['allow_empty']),
                 allow_missing=False,
                 out_sim_score=symdata.choice(c, 'oss', cfg['out_sim_score']),
                 l_key='id', r_key='id', l_attr='attr', r_attr='attr',
                 l_out_attrs=list(lo) if lo is not None else None,
                 r_out_attrs=list(ro) if ro is not None else None,
                 l_out_prefix='l_', r_out_prefix='r_', tok_return_set=True, with_id=False,
                 n_jobs=1)
        if cfg['kernel'] == 'real' and not cfg.get('sym_threshold'):
            s['threshold'] = symdata.choice(c, 'thr', cfg['thresholds'])
            if callable(s['threshold']):
                s['threshold'] = s['threshold'](c)
        elif measure == 'OVERLAP':
            s['threshold'] = c.int_var('thr', 1, k + 1)
        else:
            s['threshold'] = c.float_var('thr', 0.0, 1.0, lo_open=True)
        if s['kind'] == 'filter' and cfg['filter'] != 'OverlapFilter':
            s['comp_op'] = '>='
        Lt = scenario.build_table(c, 'L', cfg['nl'], k, cfg['kmin'], False, False,
                                  cfg['nonempty'])
        Rt = scenario.build_table(c, 'R', cfg['nr'], k, cfg['kmin'], False, False,
                                  cfg['nonempty'])
        s['L'], s['R'] = scenario.table_dict(Lt), scenario.table_dict(Rt)
        w = scenario.SymWorld()
        tok = symdata.AbsTok(return_set=True)
        b = dict(base_bindings())
        if cfg['order'] == 'identity':
            for m in ORDER_USERS:
                b[(m, 'gen_token_ordering_for_tables')] = _identity_ordering
        stub = None
        if cfg['kernel'] != 'real':
            stub = KernelStub(c, measure, cfg['kernel'], k)
            sizes = []
            for lr in Lt.rows:
                for rr in Rt.rows:
                    lt, rt = w.tokset(lr[1]), w.tokset(rr[1])
                    n, m = len(lt), len(rt)
                    sizes += [n, m]
                    if n and m and cfg['kernel'] == 'contract':
                        o = ref.overlap_size(lt, rt)
                        stub.assert_pair(ref.qualifies(measure, n, m, o, '>=', s['threshold']),
                                         n, m, o)
            if cfg['mono']:
                stub.assert_mono(sizes)
            b.update(stub.bindings(KERNEL_USERS))

        def detail(prop, clause, msg):
            def mk(mdl):
                d = {'prop': prop, 'clause': clause, 'msg': msg, 'harness': 'h_core',
                     'kernel': cfg['kernel'], 'order': cfg['order'],
                     'scenario': scenario.concretize_scenario(s, mdl)}
                if stub is not None:
                    d['kernel_values'] = {
                        'pl': dict((n, model_value(mdl, v)) for n, v in stub._pl.items()),
                        'lb': dict((n, model_value(mdl, v)) for n, v in stub._lb.items()),
                        'ub': dict((n, model_value(mdl, v)) for n, v in stub._ub.items()),
                        'alpha': dict(('%d,%d' % nm, model_value(mdl, v))
                                      for nm, v in stub._al.items())}
                return d
            return mk

        cols = ['id', 'attr', 'x', 'y']
        largs = (list(Lt.rows), list(Rt.rows), cols, cols, 'id', 'id', 'attr', 'attr')
        with repo.patched(b):
            try:
                if cfg['entry'] == 'set_sim_join':
                    out = repo.mod('join.set_sim_join').set_sim_join(
                        *largs, tok, measure, s['threshold'], s['comp_op'], s['allow_empty'],
                        s['l_out_attrs'], s['r_out_attrs'], 'l_', 'r_', s['out_sim_score'], False)
                elif cfg['entry'] == 'oc_split':
                    out = repo.mod('join.overlap_coefficient_join_py')._overlap_coefficient_join_split(
                        *largs, tok, s['threshold'], s['comp_op'], s['allow_empty'],
                        s['l_out_attrs'], s['r_out_attrs'], 'l_', 'r_', s['out_sim_score'], False)
                elif cfg['entry'] == 'filter_split':
                    f = scenario.make_filter(s, tok)
                    modname = {'SizeFilter': 'filter.size_filter', 'PrefixFilter': 'filter.prefix_filter',
                               'PositionFilter': 'filter.position_filter',
                               'SuffixFilter': 'filter.suffix_filter',
                               'OverlapFilter': 'filter.overlap_filter'}[cfg['filter']]
                    fn = repo.mod(modname)._filter_tables_split
                    if cfg['filter'] == 'OverlapFilter':
                        out = fn(*largs, f, s['l_out_attrs'], s['r_out_attrs'], 'l_', 'r_',
                                 s['out_sim_score'], False)
                    else:
                        s['out_sim_score'] = False
                        out = fn(*largs, f, s['l_out_attrs'], s['r_out_attrs'], 'l_', 'r_', False)
                else:
                    raise ValueError(cfg['entry'])
            except Violation:
                raise
            except Exception as e:
                msg = 'valid call raised %s: %s' % (type(e).__name__, e)
                raise Violation(msg, detail('CRASH', 'call-succeeds', msg))
        res = oracle.Result.of(out)
        if cfg['filter'] == 'OverlapFilter':
            viols = oracle.check_overlap_filter_tables(s, w, res)
        else:
            viols = oracle.check_join_output(s, w, res)
        for (p, clause, msg) in viols:
            if props is None or p in props:
                dd = detail(p, clause, msg)
                if cfg['filter'] == 'SuffixFilter' and clause == 'complete' and cfg['kernel'] == 'real':
                    sub = _suffix_subclass(Lt, Rt, w, measure, s['threshold'], tok)

                    def dd(mdl, _d=detail(p, clause, msg), _sub=sub):
                        d = _d(mdl)
                        d['subclass'] = _sub
                        return d
                raise Violation('%s/%s: %s' % (p, clause, msg), dd)
        _COUNTER[0] += 1
        sample = None
        if _COUNTER[0] <= 2:
            mdl = c.get_model()
            sample = {'scenario': detail('-', '-', '-')(mdl)}
        tags = ['rows=%d' % len(res.rows)]
        if cfg['kernel'] == 'real' and isinstance(s['threshold'], (int, float)) and cfg['filter'] != 'SuffixFilter':
            vp = (props and sorted(props - {'CRASH'})[0]) or 'C01'
            if tracecheck.maybe_validate(c, 'h_core', detail(vp, 'trace-validation', '-'), cfg['validate_every'], vp):
                tags.append('validated')
        return {'nontrivial': len(res.rows) > 0, 'tags': tags, 'sample': sample}

    return h


def _suffix_subclass(Lt, Rt, w, measure, threshold, tok):
    """Classify a SuffixFilter.filter_tables miss: is there a pair with a shared token that lies in
    one record's prefix and in the other record's suffix (the recorded known finding), under the
    global order = numeric order of the tokens (cells are presorted)?"""
    fu = repo.mod('filter.filter_utils')
    for lr in Lt.rows:
        for rr in Rt.rows:
            lt, rt = w.tokset(lr[1]), w.tokset(rr[1])
            if not lt or not rt:
                continue
            pl_l = fu.get_prefix_length(len(lt), measure, threshold, tok)
            pl_r = fu.get_prefix_length(len(rt), measure, threshold, tok)
            for i, a in enumerate(lt):
                for j, b in enumerate(rt):
                    if a == b and ((i < pl_l) != (j < pl_r)):
                        return 'shared-token-in-prefix-of-one-suffix-of-other'
    return 'other'


def make_subset(cfg_in):
    """C14: on the same tables, PositionFilter.filter_tables keeps a subset of what PrefixFilter and
    SizeFilter keep (same parameters).  Kernel real (threshold grid) or stubbed (shared stubs)."""
    cfg = dict(DEFAULTS)
    cfg.update(cfg_in)

    def h(c):
        measure, k = cfg['measure'], cfg['k']
        s = dict(entry='filter_split', measure=measure, kind='filter', comp_op='>=',
                 allow_empty=symdata.choice(c, 'ae', cfg['allow_empty']), allow_missing=False,
                 out_sim_score=False, l_key='id', r_key='id', l_attr='attr', r_attr='attr',
                 l_out_attrs=None, r_out_attrs=None, l_out_prefix='l_', r_out_prefix='r_',
                 tok_return_set=True, with_id=False, n_jobs=1)
        if cfg['kernel'] == 'real':
            s['threshold'] = symdata.choice(c, 'thr', cfg['thresholds'])
            if callable(s['threshold']):
                s['threshold'] = s['threshold'](c)
        else:
            s['threshold'] = c.float_var('thr', 0.0, 1.0, lo_open=True)
        Lt = scenario.build_table(c, 'L', cfg['nl'], k, cfg['kmin'], False, False, False)
        Rt = scenario.build_table(c, 'R', cfg['nr'], k, cfg['kmin'], False, False, False)
        s['L'], s['R'] = scenario.table_dict(Lt), scenario.table_dict(Rt)
        tok = symdata.AbsTok(return_set=True)
        b = dict(base_bindings())
        if cfg['order'] == 'identity':
            for m in ORDER_USERS:
                b[(m, 'gen_token_ordering_for_tables')] = _identity_ordering
        if cfg['kernel'] != 'real':
            stub = KernelStub(c, measure, 'contract', k)      # K-range and K-self only
            b.update(stub.bindings(KERNEL_USERS))
        cols = ['id', 'attr', 'x', 'y']
        largs = (list(Lt.rows), list(Rt.rows), cols, cols, 'id', 'id', 'attr', 'attr')
        res = {}

        def detail(msg, flt):
            def mk(mdl):
                sc = dict(s)
                sc['filter'] = flt
                return {'prop': 'C14', 'clause': 'position-subset', 'msg': msg, 'harness': 'h_subset',
                        'order': cfg['order'], 'kernel': cfg['kernel'], 'other': flt,
                        'scenario': scenario.concretize_scenario(sc, mdl)}
            return mk
        with repo.patched(b):
            for flt, modname in (('PositionFilter', 'filter.position_filter'),
                                 ('PrefixFilter', 'filter.prefix_filter'),
                                 ('SizeFilter', 'filter.size_filter')):
                sc = dict(s)
                sc['filter'] = flt
                try:
                    f = scenario.make_filter(sc, tok)
                    out = repo.mod(modname)._filter_tables_split(*largs, f, None, None, 'l_', 'r_', False)
                except Exception as e:
                    msg = 'valid call raised %s: %s' % (type(e).__name__, e)
                    raise Violation(msg, detail(msg, flt))
                res[flt] = set((r[0], r[1]) for r in oracle.Result.of(out).rows)
        for flt in ('PrefixFilter', 'SizeFilter'):
            extra = res['PositionFilter'] - res[flt]
            if extra:
                msg = 'PositionFilter.filter_tables keeps %r which %s drops' % (sorted(extra), flt)
                raise Violation('C14/position-subset: ' + msg, detail(msg, flt))
        return {'nontrivial': len(res['PositionFilter']) > 0,
                'tags': ['pos=%d' % len(res['PositionFilter'])], 'sample': None}

    return h


def make_t1(cfg_in):
    """T1: the real gen_token_ordering_for_tables / order_using_token_ordering on symbolic tables:
    the rank map is injective, covers every token of both tables (no token is dropped when a row is
    ordered), and an ordered row is strictly increasing with as many entries as the row has distinct
    tokens.  Discharges the arbitrary-order stub of H-CORE."""
    cfg = dict(nl=2, nr=2, k=2, kmin=0)
    cfg.update(cfg_in)

    def h(c):
        Lt = scenario.build_table(c, 'L', cfg['nl'], cfg['k'], cfg['kmin'], False, False, False)
        Rt = scenario.build_table(c, 'R', cfg['nr'], cfg['k'], cfg['kmin'], False, False, False)
        tok = symdata.AbsTok(return_set=True)
        to = repo.mod('utils.token_ordering')
        s = dict(entry='token_ordering', measure='-', L=scenario.table_dict(Lt), R=scenario.table_dict(Rt))

        def detail(msg):
            def mk(mdl):
                return {'prop': 'C01', 'clause': 'token-ordering', 'msg': msg, 'harness': 'h_t1',
                        'site': 'utils.token_ordering', 'scenario': scenario.concretize_scenario(s, mdl)}
            return mk
        with repo.patched(base_bindings()):
            ordering = to.gen_token_ordering_for_tables([list(Lt.rows), list(Rt.rows)], [1, 1], tok)
            items = list(ordering.items())
            for i in range(len(items)):
                for j in range(i + 1, len(items)):
                    if items[i][1] == items[j][1]:
                        raise Violation('T1: two tokens share rank %r' % (items[i][1],), detail('rank map not injective'))
            for r in list(Lt.rows) + list(Rt.rows):
                toks = tok.tokenize(r[1])
                ordered = to.order_using_token_ordering(toks, ordering)
                if len(ordered) != len(toks):
                    raise Violation('T1: ordering a row of %d tokens gives %d ranks (a token was dropped)' % (
                        len(toks), len(ordered)), detail('token dropped by order_using_token_ordering'))
                for a, b in zip(ordered, ordered[1:]):
                    if not (a < b):
                        raise Violation('T1: ordered row not strictly increasing', detail('ordered row not increasing'))
            # frequency first, then token order
            freq = {}
            for r in list(Lt.rows) + list(Rt.rows):
                for t in tok.tokenize(r[1]):
                    hit = None
                    for k_ in freq:
                        if k_ == t:
                            hit = k_
                            break
                    if hit is None:
                        freq[t] = 1
                    else:
                        freq[hit] += 1
            for (ta, ra) in items:
                for (tb, rb) in items:
                    if ta is tb:
                        continue
                    fa = [v for k_, v in freq.items() if k_ == ta][0]
                    fb = [v for k_, v in freq.items() if k_ == tb][0]
                    if fa < fb or (fa == fb and ta < tb):
                        if not (ra < rb):
                            raise Violation('T1: rank order is not (frequency, token) order', detail('rank order wrong'))
        return {'nontrivial': len(items) > 1, 'tags': ['tokens=%d' % len(items)], 'sample': None}

    return h
