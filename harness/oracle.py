"""Property oracles over a finished call, written once and evaluated both on symbolic scenarios
(pathsym; comparisons on tokens / thresholds are solver decisions) and on concrete ones (replay and
trace validation on the real stack).

A scenario `s` is a dict:
  entry, measure, threshold, comp_op, allow_empty, allow_missing, out_sim_score,
  l_key, r_key, l_attr, r_attr, l_out_attrs, r_out_attrs, l_out_prefix, r_out_prefix,
  L, R : tables as dicts {columns: [...], rows: [tuple,...], index: [...]}
and `w` (world) provides tokset(value)->duplicate-free token list, missing(value)->bool-like.
`res` is a Result (columns, rows, index).  Each oracle returns a list of (property id, clause, msg).
"""
from . import ref


class Result(object):
    def __init__(self, columns, rows, index=None):
        self.columns = list(columns)
        self.rows = [tuple(r) for r in rows]
        self.index = list(index) if index is not None else list(range(len(self.rows)))

    @staticmethod
    def of(frame):
        """from a pdmodel.FakeFrame or a real pandas DataFrame."""
        if hasattr(frame, '_rows'):
            return Result(frame._cols, frame._rows, frame.index)
        cols = list(frame.columns)
        rows = [tuple(r) for r in frame.itertuples(index=False, name=None)]
        return Result(cols, rows, list(frame.index))

    def col(self, name):
        j = self.columns.index(name)
        return [r[j] for r in self.rows]


def dedupe_attrs(attrs, key):
    if attrs is None:
        return None
    out = []
    for a in attrs:
        if a == key or a in out:
            continue
        out.append(a)
    return out


def expected_header(s, with_id=True):
    lo = dedupe_attrs(s.get('l_out_attrs'), s['l_key'])
    ro = dedupe_attrs(s.get('r_out_attrs'), s['r_key'])
    h = ['_id'] if with_id else []
    h += [s['l_out_prefix'] + s['l_key'], s['r_out_prefix'] + s['r_key']]
    h += [s['l_out_prefix'] + a for a in (lo or [])]
    h += [s['r_out_prefix'] + a for a in (ro or [])]
    if s.get('out_sim_score'):
        h.append('_sim_score')
    return h, (lo or []), (ro or [])


def _rowmap(table, key):
    j = table['columns'].index(key)
    d = {}
    for r in table['rows']:
        d.setdefault(r[j], []).append(r)
    return d


def _val(table, row, col):
    return row[table['columns'].index(col)]


def _key_eq(a, b):
    # keys are concrete in every harness; real pandas may hand back 1.0 for 1
    return ref.same_value(a, b)


def check_join_output(s, w, res):
    """All clauses for a join / filter_tables style output.  Returns list of (prop, clause, msg)."""
    out = []
    L, R = s['L'], s['R']
    measure = s['measure']
    with_id = s.get('with_id', True)
    header, lo, ro = expected_header(s, with_id)
    if res.columns != header:
        out.append(('C11', 'header', 'columns %r, documented %r' % (res.columns, header)))
        return out
    if with_id:
        ids = res.col('_id')
        if [int(x) for x in ids] != list(range(len(res.rows))):
            out.append(('C10', '_id', '_id column is %r, expected 0..%d'
                        % (ids, len(res.rows) - 1)))
    off = 1 if with_id else 0
    lk_j, rk_j = off, off + 1
    lmap, rmap = _rowmap(L, s['l_key']), _rowmap(R, s['r_key'])
    seen = {}
    kind = s.get('kind', 'join')          # 'join' | 'filter'
    for r in res.rows:
        lk, rk = r[lk_j], r[rk_j]
        lrow = _find(lmap, lk)
        rrow = _find(rmap, rk)
        if lrow is None or rrow is None:
            out.append(('C02', 'keys-exist', 'output row %r names a key that does not exist' % (r,)))
            continue
        # projection
        pos = off + 2
        for a in lo:
            if not ref.same_value(r[pos], _val(L, lrow, a)):
                out.append(('C11', 'projection', 'row %r: %s%s is %r, source row has %r'
                            % (r, s['l_out_prefix'], a, r[pos], _val(L, lrow, a))))
            pos += 1
        for a in ro:
            if not ref.same_value(r[pos], _val(R, rrow, a)):
                out.append(('C11', 'projection', 'row %r: %s%s is %r, source row has %r'
                            % (r, s['r_out_prefix'], a, r[pos], _val(R, rrow, a))))
            pos += 1
        score = r[pos] if s.get('out_sim_score') else None
        pk = (_norm_key(lk), _norm_key(rk))
        seen[pk] = seen.get(pk, 0) + 1
        lv, rv = _val(L, lrow, s['l_attr']), _val(R, rrow, s['r_attr'])
        lmiss, rmiss = w.missing(lv), w.missing(rv)
        if lmiss or rmiss:
            if not s['allow_missing']:
                out.append(('C08', 'no-missing-rows', 'allow_missing=False but output row %r '
                            'involves a missing value' % (r,)))
            elif s.get('out_sim_score') and not ref.is_nan(score):
                out.append(('C08', 'nan-score', 'missing pair %r has score %r, expected NaN'
                            % (r, score)))
            if seen[pk] > 1:
                out.append(('C08', 'missing-once', 'missing pair %r occurs %d times' % (pk, seen[pk])))
            continue
        if seen[pk] > 1:
            out.append(('C02', 'duplicate', 'key pair %r occurs %d times' % (pk, seen[pk])))
        if kind == 'filter':
            if s.get('filter') == 'SizeFilter' and measure in ('JACCARD', 'COSINE', 'DICE'):
                lt, rt = w.tokset(lv), w.tokset(rv)
                n_, m_ = len(lt), len(rt)
                if n_ and m_:
                    best = ref.raw_score(measure, n_, m_, min(n_, m_))
                    if best + 1e-4 + 1e-9 < s['threshold']:
                        out.append(('C14', 'size-tight', 'SizeFilter lists pair %r with token counts (%d,%d): '
                                    'best attainable %s is %r, more than 1e-4 below the threshold %r'
                                    % (pk, n_, m_, measure, best, s['threshold'])))
                elif n_ or m_:
                    out.append(('C14', 'size-tight', 'SizeFilter lists pair %r with exactly one empty side'
                                % (pk,)))
            if s.get('filter') in ('PrefixFilter', 'PositionFilter', 'OverlapFilter'):
                lt, rt = w.tokset(lv), w.tokset(rv)
                if (len(lt) or len(rt)) and ref.overlap_size(lt, rt) == 0:
                    out.append(('C14', 'no-common-token', '%s lists pair %r although the two values '
                                'have no token in common' % (s.get('filter'), pk)))
            continue
        lt, rt = w.tokset(lv), w.tokset(rv)
        n, m = len(lt), len(rt)
        if n == 0 and m == 0:
            if measure == 'OVERLAP' or not s['allow_empty']:
                out.append(('C09', 'empty-pair-not-admitted', 'empty/empty pair %r returned with '
                            'measure %s allow_empty=%r' % (pk, measure, s.get('allow_empty'))))
            elif s.get('out_sim_score') and not (score == 1.0):
                out.append(('C02', 'score', 'empty/empty pair %r has score %r, expected 1.0'
                            % (pk, score)))
            continue
        if n == 0 or m == 0:
            out.append(('C09', 'one-empty', 'pair %r with exactly one empty side returned' % (pk,)))
            continue
        o = ref.overlap_size(lt, rt)
        if not ref.may_qualify(measure, n, m, o, s['comp_op'], s['threshold']):
            out.append(('C02', 'sound', 'pair %r returned: sizes (%d,%d) overlap %d score %r does '
                        'not satisfy %s %r' % (pk, n, m, o, ref.raw_score(measure, n, m, o),
                                               s['comp_op'], s['threshold'])))
        if s.get('out_sim_score'):
            want = ref.reported_score(measure, n, m, o)
            if not (score == want):
                out.append(('C02', 'score', 'pair %r has _sim_score %r, recomputed %r'
                            % (pk, score, want)))
    # completeness
    for lrow in L['rows']:
        for rrow in R['rows']:
            lk, rk = _val(L, lrow, s['l_key']), _val(R, rrow, s['r_key'])
            pk = (_norm_key(lk), _norm_key(rk))
            lv, rv = _val(L, lrow, s['l_attr']), _val(R, rrow, s['r_attr'])
            if w.missing(lv) or w.missing(rv):
                if s['allow_missing'] and pk not in seen:
                    out.append(('C08', 'missing-pair-present', 'allow_missing=True but pair %r '
                                'with a missing side is absent' % (pk,)))
                continue
            lt, rt = w.tokset(lv), w.tokset(rv)
            n, m = len(lt), len(rt)
            if n == 0 and m == 0:
                if kind == 'filter':
                    admit = s['allow_empty'] and measure not in ('OVERLAP', 'EDIT_DISTANCE')
                    if measure == 'EDIT_DISTANCE':
                        continue
                else:
                    admit = measure != 'OVERLAP' and s['allow_empty']
                if admit and pk not in seen:
                    out.append(('C09', 'empty-pair-admitted', 'allow_empty=True but empty/empty '
                                'pair %r absent' % (pk,)))
                if not admit and pk in seen and kind == 'filter':
                    out.append(('C09', 'empty-pair-not-admitted', 'empty/empty pair %r kept with '
                                'measure %s allow_empty=%r' % (pk, measure, s.get('allow_empty'))))
                continue
            if n == 0 or m == 0:
                continue
            o = ref.overlap_size(lt, rt)
            op = s['comp_op'] if kind == 'join' else '>='
            if ref.qualifies(measure, n, m, o, op, s['threshold']) and pk not in seen:
                out.append(('C01' if kind == 'join' else 'C04', 'complete',
                            'pair %r qualifies (sizes (%d,%d), overlap %d, score %r %s %r) but is '
                            'absent' % (pk, n, m, o, ref.raw_score(measure, n, m, o), op,
                                        s['threshold'])))
    return out


def _norm_key(k):
    if isinstance(k, float) and k == int(k):
        return int(k)
    return k


def _find(rowmap, key):
    for k, rows in rowmap.items():
        if _key_eq(k, key):
            return rows[0]
    return None


def check_overlap_filter_tables(s, w, res):
    """OverlapFilter.filter_tables / overlap_join: exact (C06), plus the generic clauses."""
    s2 = dict(s)
    s2['measure'] = 'OVERLAP'
    s2['kind'] = 'join'
    s2['allow_empty'] = False
    return check_join_output(s2, w, res)
