"""A small model of the pandas / joblib / pyprind surface that py_stringsimjoin touches.

Bound to the names `pd`, `Parallel`, `delayed`, `pyprind` inside the repo modules while a pathsym
harness runs (see repo.patched()).  It is a model: every verdict obtained with it is guarded by
(i) replay of counterexamples on the real stack and (ii) trace validation (engine/pathsym/realrun.py).

Behaviours copied from pandas 3.0.6 (checked by scripts/selfcheck_pdmodel.py against real pandas):
  * DataFrame(rows, columns=h): ValueError when the widest row != len(h) (and rows non-empty);
    shorter rows are padded with NaN; [] gives an empty frame with the columns.
  * concat: union of columns in first-seen order, missing cells NaN, index labels kept.
  * frame[bool list], frame[a:b] (positional), frame[[cols]], frame[col]; dropna(subset=)
  * .values -> fresh sequence of row tuples; itertuples(index=False)
Every mutating call on a frame is logged in frame.mutations (inputs must stay untouched, C12).
"""
import math

from .core import SymBool, SymInt, Unsupported, ctx, sym_not

NaN = float('nan')

OBJECT = object          # dtype tag compared by the library with `!= object`


class DType(object):
    """dtype tag.  Equality with the builtin `object` mimics numpy: only the object tag equals it."""

    def __init__(self, name):
        self.name = name

    def __eq__(self, o):
        if o is object:
            return self.name == 'object'
        if isinstance(o, DType):
            return self.name == o.name
        if isinstance(o, str):
            return self.name == o
        return False

    def __ne__(self, o):
        return not self.__eq__(o)

    def __hash__(self):
        return hash(self.name)

    def __repr__(self):
        return 'dtype(%s)' % self.name


class StringDtype(DType):
    """pandas' string extension dtype (the default dtype of string columns in pandas 3)"""

    def __init__(self, *a, **k):
        DType.__init__(self, 'str')


def make_dtype(name):
    return StringDtype() if name == 'str' else DType(name)


def is_missing_value(v):
    """pd.isnull on a scalar.  Cells carry a symbolic flag."""
    if hasattr(v, 'missing'):
        return v.missing
    if v is None:
        return True
    if isinstance(v, float) and v != v:
        return True
    return False


class Columns(object):
    """frame.columns: supports `in`, iteration, .values, len, indexing, list()."""

    def __init__(self, names):
        self._n = list(names)

    def __contains__(self, x):
        try:
            return x in self._n
        except TypeError:
            return False

    def __iter__(self):
        return iter(self._n)

    def __len__(self):
        return len(self._n)

    def __getitem__(self, i):
        return self._n[i]

    @property
    def values(self):
        return list(self._n)

    def tolist(self):
        return list(self._n)

    def __eq__(self, o):
        return list(self._n) == list(o)

    def __repr__(self):
        return 'Columns(%r)' % (self._n,)


class FakeSeries(object):
    def __init__(self, values, index=None, dtype=None, name=None):
        self._v = list(values)
        self.index = list(index) if index is not None else list(range(len(self._v)))
        self.dtype = dtype if dtype is not None else DType('object')
        self.name = name

    def __len__(self):
        return len(self._v)

    def __iter__(self):
        return iter(self._v)

    @property
    def values(self):
        return list(self._v)

    def isnull(self):
        return FakeSeries([is_missing_value(v) for v in self._v], self.index, DType('bool'))

    isna = isnull

    def notnull(self):
        return FakeSeries([sym_not(is_missing_value(v)) for v in self._v], self.index, DType('bool'))

    notna = notnull

    def unique(self):
        """Distinct values, a missing value counting as one value (pandas semantics)."""
        out = []
        seen_missing = False
        for v in self._v:
            if is_missing_value(v):      # may branch
                if not seen_missing:
                    seen_missing = True
                    out.append(v)
                continue
            dup = False
            for w in out:
                if is_missing_value(w):
                    continue
                if w == v:                # may branch
                    dup = True
                    break
            if not dup:
                out.append(v)
        return out

    def apply(self, fn):
        return FakeSeries([fn(v) for v in self._v], self.index, DType('object'))

    map = apply

    def dropna(self, inplace=False):
        if inplace:
            raise Unsupported('Series.dropna(inplace=True)')
        keep = [i for i, v in enumerate(self._v) if not is_missing_value(v)]      # may branch
        return FakeSeries([self._v[i] for i in keep], [self.index[i] for i in keep], self.dtype, self.name)

    def __getitem__(self, key):
        if isinstance(key, FakeSeries):
            key = key._v
        if isinstance(key, list) and len(key) == len(self._v):
            keep = [i for i, k in enumerate(key) if k]
            return FakeSeries([self._v[i] for i in keep], [self.index[i] for i in keep], self.dtype, self.name)
        if isinstance(key, slice):
            idx = list(range(len(self._v)))[key]
            return FakeSeries([self._v[i] for i in idx], [self.index[i] for i in idx], self.dtype, self.name)
        hits = [i for i, l in enumerate(self.index) if l == key]
        if len(hits) == 1:
            return self._v[hits[0]]
        raise Unsupported('Series[%r]' % (key,))

    def items(self):
        return iter(list(zip(self.index, self._v)))

    def astype(self, t):
        if t in (str, 'str', object, 'object'):
            return FakeSeries(list(self._v), self.index, DType('object'), self.name)
        raise Unsupported('Series.astype(%r)' % (t,))

    @property
    def empty(self):
        return len(self._v) == 0

    @property
    def str(self):
        return _StrAccessor(self)

    def tolist(self):
        return list(self._v)


class _StrAccessor(object):
    def __init__(self, s):
        self.s = s

    def len(self):
        return FakeSeries([NaN if is_missing_value(v) is True or v is None else len(v) for v in self.s._v],
                          self.s.index, DType('float64'))


class RowArray(object):
    """`dataframe.values`: a fresh, immutable-looking sequence of row tuples (numpy 2-d object array
    surface used by the library: iteration, len, [int], [a:b])."""

    def __init__(self, rows):
        self._r = [tuple(r) for r in rows]

    def __len__(self):
        return len(self._r)

    def __iter__(self):
        return iter(self._r)

    def __getitem__(self, i):
        if isinstance(i, slice):
            return RowArray(self._r[i])
        if isinstance(i, SymInt):
            i = i.concrete()
        return self._r[i]


class FakeFrame(object):
    def __init__(self, data=None, columns=None, index=None, dtypes=None):
        self.mutations = []
        if isinstance(data, dict):
            cols = list(data.keys()) if columns is None else list(columns)
            n = len(next(iter(data.values()))) if data else 0
            rows = [tuple(data[c][i] for c in cols) for i in range(n)]
            data = rows
            columns = cols
        rows = [tuple(r) for r in (data or [])]
        if columns is None:
            raise Unsupported('FakeFrame without columns')
        columns = list(columns)
        if rows:
            widest = max(len(r) for r in rows)
            if widest != len(columns):
                raise ValueError('%d columns passed, passed data had %d columns'
                                 % (len(columns), widest))
            rows = [r + (NaN,) * (widest - len(r)) for r in rows]
        self._cols = columns
        self._rows = rows
        self.index = list(index) if index is not None else list(range(len(rows)))
        if len(self.index) != len(rows):
            raise ValueError('index length mismatch')
        self._dtypes = dict(dtypes or {})

    # -- introspection --
    @property
    def columns(self):
        return Columns(self._cols)

    def __len__(self):
        return len(self._rows)

    @property
    def empty(self):
        return len(self._rows) == 0 or len(self._cols) == 0

    @property
    def shape(self):
        return (len(self._rows), len(self._cols))

    @property
    def values(self):
        return RowArray(self._rows)

    def itertuples(self, index=True, name=None):
        if index:
            raise Unsupported('itertuples(index=True) not modelled')
        return iter(list(self._rows))

    def dtype_of(self, col):
        return self._dtypes.get(col, DType('object'))

    def _sub(self, rows, index, cols=None):
        cols = self._cols if cols is None else cols
        return FakeFrame(rows, columns=cols, index=index,
                         dtypes=dict((c, self.dtype_of(c)) for c in cols))

    # -- selection --
    def __getitem__(self, key):
        if isinstance(key, str):
            if key not in self._cols:
                raise KeyError(key)
            j = self._cols.index(key)
            return FakeSeries([r[j] for r in self._rows], self.index, self.dtype_of(key), key)
        if isinstance(key, slice):
            idx = list(range(len(self._rows)))[key]
            return self._sub([self._rows[i] for i in idx], [self.index[i] for i in idx])
        if isinstance(key, FakeSeries):
            key = key._v
        if isinstance(key, list):
            if len(key) > 0 and all(isinstance(k, str) for k in key):
                js = []
                for k in key:
                    if k not in self._cols:
                        raise KeyError(k)
                    js.append(self._cols.index(k))
                return self._sub([tuple(r[j] for j in js) for r in self._rows], self.index,
                                 list(key))
            if len(key) != len(self._rows):
                raise ValueError('Item wrong length %d instead of %d.' % (len(key), len(self._rows)))
            keep = [i for i, k in enumerate(key) if k]       # may branch on SymBool
            return self._sub([self._rows[i] for i in keep], [self.index[i] for i in keep])
        raise Unsupported('FakeFrame[%r]' % (key,))

    def dropna(self, axis=0, subset=None, how='any', inplace=False):
        if axis != 0 or how != 'any':
            raise Unsupported('dropna form not modelled')
        if subset is None:
            subset = list(self._cols)         # pandas: any missing cell in the row
        if inplace:
            # pandas mutates the receiver and returns None; logged as a mutation of the frame
            res = self.dropna(axis=axis, subset=subset, how=how)
            if len(res._rows) != len(self._rows):
                self.mutations.append(('dropna', 'inplace'))      # observable change of the receiver
            self._rows, self.index = list(res._rows), list(res.index)
            return None
        js = [self._cols.index(c) for c in subset]
        keep = []
        for i, r in enumerate(self._rows):
            miss = False
            for j in js:
                if is_missing_value(r[j]):          # may branch
                    miss = True
                    break
            if not miss:
                keep.append(i)
        return self._sub([self._rows[i] for i in keep], [self.index[i] for i in keep])

    # -- mutation (logged) --
    def insert(self, loc, column, value):
        self.mutations.append(('insert', loc, column))
        if column in self._cols:
            raise ValueError('cannot insert %s, already exists' % column)
        value = list(value)
        if len(value) != len(self._rows):
            raise ValueError('Length of values (%d) does not match length of index (%d)'
                             % (len(value), len(self._rows)))
        self._cols.insert(loc, column)
        self._rows = [r[:loc] + (v,) + r[loc:] for r, v in zip(self._rows, value)]

    def __setitem__(self, key, value):
        self.mutations.append(('setitem', key))
        raise Unsupported('FakeFrame.__setitem__ (recorded as mutation)')

    def set_index(self, col):
        j = self._cols.index(col)
        cols = [c for c in self._cols if c != col]
        return FakeFrame([r[:j] + r[j + 1:] for r in self._rows], columns=cols,
                         index=[r[j] for r in self._rows])

    # -- label / position based access (subset) --
    @property
    def loc(self):
        return _Loc(self)

    @property
    def iloc(self):
        return _ILoc(self)

    def drop(self, labels=None, axis=0, index=None, columns=None, inplace=False):
        if inplace:
            self.mutations.append(('drop', 'inplace'))
            raise Unsupported('drop(inplace=True) (recorded as mutation)')
        if columns is not None or axis == 1:
            cols = columns if columns is not None else labels
            cols = [cols] if isinstance(cols, str) else list(cols)
            keep = [c for c in self._cols if c not in cols]
            return self[keep]
        labels = index if index is not None else labels
        if isinstance(labels, FakeSeries):
            labels = labels._v
        labels = list(labels) if isinstance(labels, (list, tuple)) else [labels]
        for lab in labels:
            if lab not in self.index:
                raise KeyError('%r not found in axis' % (lab,))
        keep = [i for i, lab in enumerate(self.index) if lab not in labels]
        return self._sub([self._rows[i] for i in keep], [self.index[i] for i in keep])

    def reset_index(self, drop=False, inplace=False):
        if inplace:
            self.mutations.append(('reset_index', 'inplace'))
            raise Unsupported('reset_index(inplace=True) (recorded as mutation)')
        if not drop:
            raise Unsupported('reset_index(drop=False)')
        return self._sub(list(self._rows), list(range(len(self._rows))))

    def copy(self, deep=True):
        return self._sub(list(self._rows), list(self.index))

    def head(self, n=5):
        return self[0:n]

    def iterrows(self):
        for lab, r in zip(self.index, self._rows):
            yield lab, FakeSeries(list(r), list(self._cols))

    def snapshot(self):
        return (tuple(self._cols), tuple(self._rows), tuple(self.index),
                tuple(sorted((k, v.name) for k, v in self._dtypes.items())))

    def __repr__(self):
        return 'FakeFrame(cols=%r, rows=%r, index=%r)' % (self._cols, self._rows, self.index)


class _Loc(object):
    def __init__(self, f):
        self.f = f

    def __getitem__(self, key):
        f = self.f
        if isinstance(key, tuple):
            raise Unsupported('loc[rows, cols]')
        if isinstance(key, FakeSeries):
            key = key._v
        if isinstance(key, list):
            if key and all(isinstance(k, bool) or hasattr(k, 't') for k in key) and len(key) == len(f._rows) \
                    and not all(k in f.index for k in key):
                return f[key]
            pos = []
            for lab in key:
                hits = [i for i, l in enumerate(f.index) if l == lab]
                if not hits:
                    raise KeyError(lab)
                pos += hits
            return f._sub([f._rows[i] for i in pos], [f.index[i] for i in pos])
        hits = [i for i, l in enumerate(f.index) if l == key]
        if not hits:
            raise KeyError(key)
        if len(hits) == 1:
            return FakeSeries(list(f._rows[hits[0]]), list(f._cols))
        return f._sub([f._rows[i] for i in hits], [f.index[i] for i in hits])


class _ILoc(object):
    def __init__(self, f):
        self.f = f

    def __getitem__(self, key):
        f = self.f
        if isinstance(key, slice):
            return f[key]
        if isinstance(key, list):
            return f._sub([f._rows[i] for i in key], [f.index[i] for i in key])
        if isinstance(key, int):
            return FakeSeries(list(f._rows[key]), list(f._cols))
        raise Unsupported('iloc[%r]' % (key,))


def concat(frames, *a, **k):
    for key in k:
        if key not in ('ignore_index', 'axis', 'sort'):
            raise Unsupported('concat(%s=...)' % key)
    if k.get('axis', 0) != 0:
        raise Unsupported('concat(axis=1)')
    frames = list(frames)
    if not frames:
        raise ValueError('No objects to concatenate')
    cols = []
    for f in frames:
        if not isinstance(f, FakeFrame):
            raise TypeError('cannot concatenate object of type %s' % type(f))
        for c in f._cols:
            if c not in cols:
                cols.append(c)
    rows, index = [], []
    for f in frames:
        pos = dict((c, j) for j, c in enumerate(f._cols))
        for r, lab in zip(f._rows, f.index):
            rows.append(tuple(r[pos[c]] if c in pos else NaN for c in cols))
            index.append(lab)
    if k.get('ignore_index'):
        index = list(range(len(rows)))
    return FakeFrame(rows, columns=cols, index=index)


def isnull(x):
    if isinstance(x, FakeSeries):
        return x.isnull()
    if isinstance(x, FakeFrame):
        raise Unsupported('isnull(frame)')
    return is_missing_value(x)


def notnull(x):
    if isinstance(x, FakeSeries):
        return x.notnull()
    return sym_not(is_missing_value(x))


class PdModule(object):
    """Stands for the `pd` name inside repo modules."""
    DataFrame = FakeFrame
    Series = FakeSeries
    StringDtype = StringDtype
    concat = staticmethod(concat)
    isnull = staticmethod(isnull)
    isna = staticmethod(isnull)
    notnull = staticmethod(notnull)
    notna = staticmethod(notnull)


# ---- joblib / pyprind -------------------------------------------------------------------------

class _Delayed(object):
    def __init__(self, fn):
        self.fn = fn

    def __call__(self, *a, **k):
        return (self.fn, a, k)


def delayed(fn):
    return _Delayed(fn)


class Parallel(object):
    """Sequential stand-in: results in job order; no pickling, no processes."""
    calls = []

    def __init__(self, n_jobs=1, **k):
        if isinstance(n_jobs, SymInt):
            n_jobs = n_jobs.concrete()
        self.n_jobs = n_jobs

    def __call__(self, jobs):
        jobs = list(jobs)
        Parallel.calls.append((self.n_jobs, len(jobs)))
        return [fn(*a, **k) for fn, a, k in jobs]


class _ProgBar(object):
    def __init__(self, *a, **k):
        pass

    def update(self, *a, **k):
        pass


class PyprindModule(object):
    ProgBar = _ProgBar
