"""SymStr: a str subclass whose characters are symbolic integers (concrete length).  It flows through
the real py_stringmatching QgramTokenizer (padding, slicing, filter(None, ...), convert_bag_to_set)
and through py_stringsimjoin's token ordering (dict keys, sorting).  Plus a reference Levenshtein on
such strings (z3 `ite` terms), standing in for the compiled extension."""
import z3

from .core import SymBool, SymInt, as_int_term, ctx, model_value


def _ct(ch):
    """character -> z3 Int term"""
    if isinstance(ch, SymInt):
        return ch.t
    return z3.IntVal(ch)


class SymStr(str):
    def __new__(cls, chars):
        s = str.__new__(cls, '?' * len(chars))
        s.chars = list(chars)
        return s

    @staticmethod
    def lift(x):
        if isinstance(x, SymStr):
            return x
        if isinstance(x, str):
            return SymStr([ord(ch) for ch in x])
        raise TypeError('cannot lift %r to SymStr' % (x,))

    def __len__(self):
        return len(self.chars)

    def __bool__(self):
        return len(self.chars) > 0

    def __getitem__(self, i):
        if isinstance(i, slice):
            return SymStr(self.chars[i])
        return SymStr([self.chars[i]])

    def __iter__(self):
        return iter([SymStr([ch]) for ch in self.chars])

    def __add__(self, o):
        return SymStr(self.chars + SymStr.lift(o).chars)

    def __radd__(self, o):
        return SymStr(SymStr.lift(o).chars + self.chars)

    def __mul__(self, n):
        return SymStr(self.chars * n)

    __rmul__ = __mul__

    def eq_term(self, o):
        o = SymStr.lift(o)
        if len(o.chars) != len(self.chars):
            return z3.BoolVal(False)
        if not self.chars:
            return z3.BoolVal(True)
        return z3.And(*[_ct(a) == _ct(b) for a, b in zip(self.chars, o.chars)])

    def lt_term(self, o):
        """lexicographic order by code point (what str.__lt__ does)"""
        o = SymStr.lift(o)
        a, b = self.chars, o.chars
        t = z3.BoolVal(len(a) < len(b))        # all common positions equal
        for i in reversed(range(min(len(a), len(b)))):
            t = z3.If(_ct(a[i]) == _ct(b[i]), t, _ct(a[i]) < _ct(b[i]))
        return t

    def __eq__(self, o):
        if o is None or not isinstance(o, str):
            return False
        return SymBool(self.eq_term(o))

    def __ne__(self, o):
        if o is None or not isinstance(o, str):
            return True
        return SymBool(z3.Not(self.eq_term(o)))

    def __lt__(self, o):
        return SymBool(self.lt_term(o))

    def __gt__(self, o):
        return SymBool(SymStr.lift(o).lt_term(self))

    def __le__(self, o):
        return SymBool(z3.Not(SymStr.lift(o).lt_term(self)))

    def __ge__(self, o):
        return SymBool(z3.Not(self.lt_term(o)))

    def __hash__(self):
        return hash(('symstr', len(self.chars)))

    def strip(self, *a):
        raise NotImplementedError('strip on SymStr')

    def __repr__(self):
        return 'SymStr(%r)' % (self.chars,)

    def concretize_with(self, m):
        return {'symstr': [model_value(m, ch) if isinstance(ch, SymInt) else ch for ch in self.chars]}


def levenshtein_term(s, t):
    """edit distance of two SymStr as a z3 Int term (classic DP, min as ite)."""
    s, t = SymStr.lift(s), SymStr.lift(t)
    n, m = len(s.chars), len(t.chars)
    prev = [z3.IntVal(j) for j in range(m + 1)]
    for i in range(1, n + 1):
        cur = [z3.IntVal(i)] + [None] * m
        for j in range(1, m + 1):
            cost = z3.If(_ct(s.chars[i - 1]) == _ct(t.chars[j - 1]), 0, 1)
            a, b, c3 = prev[j] + 1, cur[j - 1] + 1, prev[j - 1] + cost
            ab = z3.If(a <= b, a, b)
            cur[j] = z3.If(ab <= c3, ab, c3)
        prev = cur
    return z3.simplify(prev[m])


def levenshtein_ref(s, t):
    """stands for Levenshtein().get_raw_score on SymStr arguments: plain DP in which every character
    comparison is a solver decision (most are already decided by the q-gram comparisons of the
    tokenizer / token ordering), so the distance itself is a concrete integer on each path."""
    s, t = SymStr.lift(s), SymStr.lift(t)
    a, b = s.chars, t.chars
    n, m = len(a), len(b)
    eq = [[None] * m for _ in range(n)]
    for i in range(n):
        for j in range(m):
            x, y = a[i], b[j]
            if isinstance(x, SymInt) or isinstance(y, SymInt):
                eq[i][j] = bool(SymBool(_ct(x) == _ct(y)))
            else:
                eq[i][j] = (x == y)
    prev = list(range(m + 1))
    for i in range(1, n + 1):
        cur = [i] + [0] * m
        for j in range(1, m + 1):
            cur[j] = min(prev[j] + 1, cur[j - 1] + 1, prev[j - 1] + (0 if eq[i - 1][j - 1] else 1))
        prev = cur
    return prev[m]


def render_symstr(spec, alphabet_map):
    return ''.join(alphabet_map[v] for v in spec['symstr'])
