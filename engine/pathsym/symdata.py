"""Symbolic table contents for pathsym harnesses: cells, abstract tokenizer, tables, and their
concretisation (solver model -> ordinary strings / pandas-ready specs)."""
import z3
from py_stringmatching.tokenizer.tokenizer import Tokenizer

from .core import SymBool, SymInt, Unsupported, ctx, model_value
from . import pdmodel


class Cell(object):
    """A join-attribute value: missing flag, a token list of symbolic length 0..k, and a flag that
    distinguishes the empty string from a non-empty string without tokens (e.g. delimiters only).
    Tokens are unconstrained integers; only their equality / order matters to the library."""

    def __init__(self, c, name, k, kmin=0, missing='sym', bag=False, nonempty='sym',
                 presorted=True):
        self.name = name
        self.k = k
        if missing == 'sym':
            self.missing = c.bool_var(name + '.miss')
        else:
            self.missing = bool(missing)
        self.ntok = c.int_var(name + '.n', kmin, k) if kmin < k else k
        self.toks = [c.int_var('%s.t%d' % (name, i), 0, 10 ** 6, token=True) for i in range(k)]
        # Symmetry reduction (stated in DESIGN.md): a cell lists its tokens in increasing order of
        # their arbitrary integer codes - strictly for sets, weakly for bags.  The library only
        # ever compares tokens, and a tokenizer's output order is not part of any property.
        for a, b in zip(self.toks, self.toks[1:]):
            if presorted:
                c._assert(a.t <= b.t if bag else a.t < b.t)
        if not presorted and not bag and k > 1:
            c._assert(z3.Distinct(*[t.t for t in self.toks]))
        self.bag = bag
        if nonempty == 'sym':
            self.nonempty = c.bool_var(name + '.ne')
        else:
            self.nonempty = bool(nonempty)
        self._n = None

    def n(self):
        if self._n is None:
            self._n = int(self.ntok)        # forks over 0..k
        return self._n

    def token_list(self):
        return list(self.toks[:self.n()])

    def is_missing(self):
        return self.missing if isinstance(self.missing, bool) else bool(self.missing)

    def __bool__(self):
        """truthiness of the underlying value (`not lstring`): a missing value is rendered as None
        (falsy); a string is truthy iff it is non-empty."""
        if self.is_missing():
            return False
        if self.n() > 0:
            return True
        return bool(self.nonempty)

    def is_empty_string(self):
        return (not self.is_missing()) and self.n() == 0 and not bool(self.nonempty)

    def __len__(self):
        if self.is_empty_string():
            return 0
        raise Unsupported('len() of an abstract non-empty cell')

    def __eq__(self, o):
        if isinstance(o, str) and not isinstance(o, Cell):
            # comparison with a literal: only the empty string is decidable for an abstract cell
            if o == '':
                return self.is_empty_string()
            if o.strip() == '':
                raise Unsupported('comparison of an abstract cell with a whitespace literal')
            return False
        if isinstance(o, Cell) and o is not self:
            # two values are equal iff both are present strings with the same tokens / emptiness
            if self.is_missing() or o.is_missing():
                return False
            a, b = self.token_list(), o.token_list()
            if len(a) != len(b):
                return False
            for x, y in zip(a, b):
                if not (x == y):
                    return False
            if not a:
                return bool(self.nonempty) == bool(o.nonempty)
            return True
        return self is o

    def __ne__(self, o):
        r = self.__eq__(o)
        return not r

    def __hash__(self):
        return id(self)

    def concretize_with(self, m):
        if model_value(m, self.missing):
            return {'missing': True}
        n = model_value(m, self.ntok)
        return {'missing': False, 'tokens': [model_value(m, t) for t in self.toks[:n]],
                'nonempty': bool(model_value(m, self.nonempty))}

    def __repr__(self):
        return 'Cell(%s)' % self.name


class AbsTok(Tokenizer):
    """Abstract tokenizer: stands for any py_stringmatching tokenizer.  The library uses a tokenizer
    only through tokenize / get_return_set / set_return_set."""

    def __init__(self, return_set=False):
        super(AbsTok, self).__init__(return_set)
        self.flips = []

    def set_return_set(self, v):
        self.flips.append(v)
        return super(AbsTok, self).set_return_set(v)

    def tokenize(self, cell):
        if not isinstance(cell, Cell):
            raise TypeError('AbsTok.tokenize on %r' % (cell,))
        if cell.missing is True:
            raise TypeError('tokenize(None)')
        toks = cell.token_list()
        if self.return_set:
            toks = dedupe(toks)
        out = TokList(toks)
        out.cell = cell
        return out


class TokList(list):
    """token list that remembers the cell it came from (lets an uninterpreted similarity recognise
    its arguments)"""
    cell = None


def dedupe(toks):
    out = []
    for t in toks:
        dup = False
        for u in out:
            if t == u:
                dup = True
                break
        if not dup:
            out.append(t)
    return out


def choice(c, name, options):
    """Symbolic choice among a list of options (forks)."""
    options = list(options)
    if len(options) == 1:
        return options[0]
    i = c.int_var(name, 0, len(options) - 1)
    return options[int(i)]


class SymTable(object):
    """A table under construction: column order, rows of values, index labels, dtype tags."""

    def __init__(self, name, columns, rows, index=None, dtypes=None):
        self.name = name
        self.columns = list(columns)
        self.rows = [tuple(r) for r in rows]
        self.index = list(index) if index is not None else list(range(len(self.rows)))
        self.dtypes = dict(dtypes or {})

    def frame(self):
        return pdmodel.FakeFrame(self.rows, columns=self.columns, index=self.index,
                                 dtypes=self.dtypes)

    def col(self, c):
        j = self.columns.index(c)
        return [r[j] for r in self.rows]

    def concretize_with(self, m):
        return {'name': self.name, 'columns': list(self.columns),
                'rows': [[model_value(m, v) for v in r] for r in self.rows],
                'index': list(self.index),
                'dtypes': dict((k, v.name) for k, v in self.dtypes.items())}


# ---- rendering concrete cells as strings ------------------------------------------------------

def word_map(values):
    """token values -> words whose alphabetical order equals the numeric order."""
    vs = sorted(set(values))
    return dict((v, 'w%05d' % i) for i, v in enumerate(vs))


def collect_token_values(obj, acc):
    if isinstance(obj, dict):
        if 'tokens' in obj and 'missing' in obj:
            acc.extend(obj['tokens'])
        else:
            for v in obj.values():
                collect_token_values(v, acc)
    elif isinstance(obj, (list, tuple)):
        for v in obj:
            collect_token_values(v, acc)
    return acc


def render_cell(cellspec, wmap, missing_as=None):
    if cellspec.get('missing'):
        return missing_as
    toks = cellspec['tokens']
    if not toks:
        return ' ' if cellspec.get('nonempty') else ''
    return ' '.join(wmap[t] for t in toks)


def render(obj, wmap):
    """Replace every cell spec inside obj by its string."""
    if isinstance(obj, dict):
        if 'missing' in obj and ('tokens' in obj or obj.get('missing') is True) and \
                set(obj.keys()) <= {'missing', 'tokens', 'nonempty'}:
            return render_cell(obj, wmap)
        return dict((k, render(v, wmap)) for k, v in obj.items())
    if isinstance(obj, (list, tuple)):
        return [render(v, wmap) for v in obj]
    return obj
