"""E2 `pathsym`: path-by-path symbolic execution of real Python code, z3 deciding every branch.

The code under test runs natively in CPython on proxy values (SymInt, SymBool, SymFloat).  Every
point where Python needs a concrete truth value (`if`, `and`, dict lookup `__eq__`, sort `__lt__`,
`__index__`) calls `Ctx.decide(term)`.  A path is identified by the list of decisions taken; the
search is depth first by re-execution.  Alternatives that z3 proves infeasible are pruned, so each
explored path is a satisfiable equivalence class of inputs.

Exhaustive within the declared variable ranges iff the run ends with no `unknown`, no depth cap hit.
"""
import os
import struct
import sys
import time
import traceback
import zlib

import z3

DEBUG = bool(os.environ.get('PATHSYM_DEBUG'))
_DBG = {}
MAX_DECISIONS = int(os.environ.get('PATHSYM_MAX_DECISIONS', '20000'))


class EngineSignal(BaseException):
    """Control flow of the engine; BaseException so that `except Exception` in code under test
    does not swallow it."""


class Vacuous(EngineSignal):
    """assume(False): path dropped."""


class Inconclusive(EngineSignal):
    """solver unknown / depth cap / nondeterminism: the whole run is inconclusive."""


class Unsupported(Exception):
    """operation on a proxy that the engine does not model (harness error, never a pass)."""


class Violation(Exception):
    """raised by a harness oracle; carries a description and arbitrary detail."""

    def __init__(self, msg, detail=None):
        Exception.__init__(self, msg)
        self.msg = msg
        self.detail = detail


_CTX = None


def ctx():
    if _CTX is None:
        raise RuntimeError('no active pathsym context')
    return _CTX


class Ctx(object):
    fresh_mode = False     # True: every check on a fresh non-incremental solver (FP theory: the
                           # tactic-based QF_FP solver is far faster than the incremental core)

    def __init__(self, prefix=(), model=None):
        self.asserted = []
        self.solver = z3.Solver()
        self.solver.set('timeout', int(os.environ.get('PATHSYM_Z3_TIMEOUT_MS', '60000')))
        self.prefix = list(prefix)
        self.trail = []          # [(taken, forced, hash)]
        self.known = {}          # z3 ast id -> bool, for terms kept alive in self.keep
        self.conc = {}           # z3 ast id -> concretised value
        self.keep = []
        self.model = model if not prefix else model
        self.pending = []        # [(prefix list, model)]
        self.nvar = 0
        self.checks = 0
        self.solver_s = 0.0
        self.names = {}          # name -> z3 var (for model extraction)
        self.notes = {}          # free-form per-path data for harnesses

    # ---- variables -------------------------------------------------------------------------
    def fresh_name(self, base):
        self.nvar += 1
        return '%s!%d' % (base, self.nvar)

    def int_var(self, base, lo=None, hi=None, token=False):
        name = self.fresh_name(base)
        v = z3.Int(name)
        self.names[name] = v
        if lo is not None:
            self._assert(v >= lo)
        if hi is not None:
            self._assert(v <= hi)
        return SymInt(v, token=token)

    def bool_var(self, base):
        name = self.fresh_name(base)
        v = z3.Bool(name)
        self.names[name] = v
        return SymBool(v)

    def float_var(self, base, lo=None, hi=None, lo_open=False, hi_open=False):
        """A double known only through comparisons: represented by its order-isomorphic integer
        ordinal (see float_ord)."""
        name = self.fresh_name(base)
        v = z3.Int(name)
        self.names[name] = v
        self._assert(v >= float_ord(-sys.float_info.max))
        self._assert(v <= float_ord(sys.float_info.max))
        f = SymFloat(v)
        if lo is not None:
            self._assert(v > float_ord(lo) if lo_open else v >= float_ord(lo))
        if hi is not None:
            self._assert(v < float_ord(hi) if hi_open else v <= float_ord(hi))
        return f

    # ---- assertions ------------------------------------------------------------------------
    def replaying(self):
        return len(self.trail) < len(self.prefix)

    def _add(self, term):
        self.asserted.append(term)
        if not self.fresh_mode:
            self.solver.add(term)

    def _check_with(self, extra):
        """satisfiability of the path constraint plus `extra`; -> (result, model or None)"""
        t0 = time.time()
        if self.fresh_mode:
            sv = z3.Solver()
            sv.set('timeout', int(os.environ.get('PATHSYM_Z3_TIMEOUT_MS', '60000')) * 15)
            for a in self.asserted:
                sv.add(a)
            for a in extra:
                sv.add(a)
            r = sv.check()
            mdl = sv.model() if r == z3.sat else None
            reason = sv.reason_unknown() if r == z3.unknown else ''
        else:
            self.solver.push()
            for a in extra:
                self.solver.add(a)
            r = self.solver.check()
            mdl = self.solver.model() if r == z3.sat else None
            reason = self.solver.reason_unknown() if r == z3.unknown else ''
            self.solver.pop()
        self.solver_s += time.time() - t0
        self.checks += 1
        if r == z3.unknown:
            raise Inconclusive('z3 returned unknown: %s' % reason)
        return r, mdl

    def _assert(self, term):
        self._add(term)
        if not self.replaying():
            # a model handed over with the prefix satisfies everything asserted while the prefix
            # is being replayed; anything asserted later invalidates it
            self.model = None

    def assume(self, cond):
        """Constrain the path; infeasible => Vacuous."""
        term = as_bool_term(cond)
        if z3.is_true(term):
            return
        if z3.is_false(term):
            raise Vacuous()
        if self.replaying():
            self._add(term)     # known feasible: a later decision of the prefix was reached
            return
        self._assert(term)
        r, mdl = self._check_with([])
        if r != z3.sat:
            raise Vacuous()
        self.model = mdl

    def get_model(self):
        if self.model is None:
            r, mdl = self._check_with([])
            if r != z3.sat:
                raise Inconclusive('path constraint unsat at model request (engine bug)')
            self.model = mdl
        return self.model

    def feasible(self, cond):
        """Is cond satisfiable together with the path constraint?  (No decision recorded.)"""
        term = as_bool_term(cond)
        if z3.is_true(term):
            return True
        if z3.is_false(term):
            return False
        k = self.known.get(term.get_id())
        if k is not None:
            return k
        r, _ = self._check_with([term])
        return r == z3.sat

    # ---- decisions -------------------------------------------------------------------------
    def decide(self, term, aux=None):
        raw = term
        term = z3.simplify(term)
        if z3.is_true(term):
            return True
        if z3.is_false(term):
            return False
        tid = term.get_id()
        k = self.known.get(tid)
        if k is not None:
            return k
        i = len(self.trail)
        if i >= MAX_DECISIONS:
            raise Inconclusive('decision depth cap %d reached' % MAX_DECISIONS)
        # the replay check hashes the term as the program built it (deterministic structure); the
        # simplifier's normal form depends on AST ids and may differ between a path and its replay
        h = canon_hash(raw)
        if i < len(self.prefix):
            taken, forced, ph = self.prefix[i][:3]
            if ph != h:
                raise Inconclusive('nondeterministic replay at decision %d: now %s ; expected %s; '
                                   'trail so far %r' % (i, term.sexpr()[:300], _DBG.get(ph),
                                                        [(t[0], t[1], t[3], _DBG.get(t[2]))
                                                         for t in self.trail[-4:]]))
            self._add(term if taken else z3.Not(term))
            self._record(term, tid, taken, forced, h, aux)
            return taken
        m = self.get_model()
        v = m.eval(term, model_completion=True)
        taken = z3.is_true(v)
        if not taken and not z3.is_false(v):
            raise Inconclusive('model evaluation not boolean: %s' % v)
        other = z3.Not(term) if taken else term
        r, alt_model = self._check_with([other])
        forced = (r != z3.sat)
        if not forced:
            alt = list(self.trail) + [((not taken, False, h, aux, term.sexpr()[:120]) if DEBUG else (not taken, False, h, aux))]
            self.pending.append((alt, alt_model))
        self._add(term if taken else z3.Not(term))   # model stays valid
        self._record(term, tid, taken, forced, h, aux)
        return taken

    def _record(self, term, tid, taken, forced, h, aux=None):
        if DEBUG:
            _DBG[h] = term.sexpr()[:300]
        self.trail.append((taken, forced, h, aux, term.sexpr()[:120]) if DEBUG else (taken, forced, h, aux))
        self.known[tid] = taken
        self.keep.append(term)
        nt = z3.Not(term)
        self.known[nt.get_id()] = not taken
        self.keep.append(nt)

    def concretize(self, term):
        """Fork over the values of an Int term (its range must be bounded by constraints)."""
        simp = z3.simplify(term)
        if z3.is_int_value(simp):
            return simp.as_long()
        tid = simp.get_id()
        if tid in self.conc:
            return self.conc[tid]
        self.keep.append(simp)
        # decisions are made (and hashed for the replay check) on the term as the program built it
        for _ in range(100000):
            i = len(self.trail)
            if i < len(self.prefix):
                # replay: use the value tried at this point of the original path - but only if the
                # recorded decision really is `term == value`; otherwise the original resolved this
                # concretisation from already known facts (no trail entry), i.e. the value is
                # implied by the constraints so far, and any model of them yields it.
                v = self.prefix[i][3]
                if v is None or canon_hash(term == v) != self.prefix[i][2]:
                    r, mdl = self._check_with([])
                    if r != z3.sat:
                        raise Inconclusive('replayed prefix infeasible (engine bug)')
                    v = mdl.eval(term, model_completion=True).as_long()
            else:
                v = self.get_model().eval(term, model_completion=True).as_long()
            if self.decide(term == v, aux=v):
                self.conc[tid] = v
                return v
        if DEBUG:
            print('PREFIX', [(x[0], x[3], x[4]) for x in self.prefix])
            print('TRAIL', [(x[0], x[3], x[4]) for x in self.trail])
        raise Inconclusive('concretize did not terminate: term %s last v %r known %r replaying %r model-valid %r'
                           % (term.sexpr()[:200], v, self.known.get(z3.simplify(term == v).get_id()), self.replaying(), self.model is not None))


_COMM = None


def canon_hash(t):
    """Structural hash that does not depend on AST ids or on the argument order the simplifier
    picks for commutative operators (that order follows allocation order and differs between a
    path and its replay)."""
    global _COMM
    if _COMM is None:
        _COMM = {z3.Z3_OP_AND, z3.Z3_OP_OR, z3.Z3_OP_EQ, z3.Z3_OP_DISTINCT, z3.Z3_OP_ADD,
                 z3.Z3_OP_MUL, z3.Z3_OP_IFF if hasattr(z3, 'Z3_OP_IFF') else z3.Z3_OP_EQ,
                 z3.Z3_OP_BADD, z3.Z3_OP_BMUL, z3.Z3_OP_BAND, z3.Z3_OP_BOR, z3.Z3_OP_BXOR,
                 z3.Z3_OP_XOR}
    if z3.is_app(t):
        d = t.decl()
        k = d.kind()
        n = t.num_args()
        if n == 0:
            return zlib.crc32(('%d:%s' % (k, d.name() if k == z3.Z3_OP_UNINTERPRETED else str(t))).encode())
        hs = [canon_hash(t.arg(i)) for i in range(n)]
        if k in _COMM:
            hs.sort()
        return hash((k, tuple(hs)))
    return zlib.crc32(str(t).encode())


# ---- proxies ----------------------------------------------------------------------------------

def float_ord(x):
    """Order-isomorphic map from finite doubles to integers (adjacent doubles -> adjacent ints;
    -0.0 and +0.0 both -> 0)."""
    x = float(x)
    if x != x or x in (float('inf'), float('-inf')):
        raise Unsupported('float_ord of non-finite %r' % x)
    b = struct.unpack('<q', struct.pack('<d', abs(x)))[0]
    return b if x >= 0 else -b


def ord_float(n):
    b = abs(int(n))
    x = struct.unpack('<d', struct.pack('<q', b))[0]
    return x if n >= 0 else -x


def as_bool_term(c):
    if isinstance(c, SymBool):
        return c.t
    if isinstance(c, bool):
        return z3.BoolVal(c)
    if isinstance(c, z3.BoolRef):
        return c
    raise Unsupported('not a boolean: %r' % (c,))


def as_int_term(x):
    if isinstance(x, SymInt):
        return x.t
    if isinstance(x, bool):
        return z3.IntVal(int(x))
    if isinstance(x, int):
        return z3.IntVal(x)
    return None


class SymBool(object):
    __slots__ = ('t',)

    def __init__(self, t):
        self.t = t

    def __bool__(self):
        return ctx().decide(self.t)

    def __and__(self, o):
        return SymBool(z3.And(self.t, as_bool_term(o)))

    __rand__ = __and__

    def __or__(self, o):
        return SymBool(z3.Or(self.t, as_bool_term(o)))

    __ror__ = __or__

    def __invert__(self):
        return SymBool(z3.Not(self.t))

    def __eq__(self, o):
        return SymBool(self.t == as_bool_term(o))

    def __ne__(self, o):
        return SymBool(self.t != as_bool_term(o))

    def __hash__(self):
        return hash(bool(self))

    # sum(mask) counts the true entries
    def _as_int(self):
        return SymInt(z3.If(self.t, z3.IntVal(1), z3.IntVal(0)))

    def __add__(self, o):
        return self._as_int() + o

    def __radd__(self, o):
        return o + self._as_int()

    def __int__(self):
        return 1 if bool(self) else 0

    def __repr__(self):
        return 'SymBool(%s)' % self.t


def sym_and(*cs):
    return SymBool(z3.And(*[as_bool_term(c) for c in cs])) if cs else True


def sym_or(*cs):
    return SymBool(z3.Or(*[as_bool_term(c) for c in cs])) if cs else False


def sym_not(c):
    if isinstance(c, bool):
        return not c
    return SymBool(z3.Not(as_bool_term(c)))


def sym_implies(a, b):
    return SymBool(z3.Implies(as_bool_term(a), as_bool_term(b)))


class SymInt(object):
    __slots__ = ('t', 'token')

    def __init__(self, t, token=False):
        self.t = t
        self.token = token

    # arithmetic
    def _bin(self, o, f):
        if isinstance(o, float):
            # mixed int/float arithmetic (e.g. the suffix filter's midpoints): concretise
            return f(self.concrete(), o) if f.__code__.co_varnames[0] == 'a' else NotImplemented
        ot = as_int_term(o)
        if ot is None:
            return NotImplemented
        return SymInt(f(self.t, ot))

    def __add__(self, o):
        return self._bin(o, lambda a, b: a + b)

    def __radd__(self, o):
        return self._bin(o, lambda a, b: b + a)

    def __sub__(self, o):
        return self._bin(o, lambda a, b: a - b)

    def __rsub__(self, o):
        return self._bin(o, lambda a, b: b - a)

    def __mul__(self, o):
        return self._bin(o, lambda a, b: a * b)

    def __rmul__(self, o):
        return self._bin(o, lambda a, b: b * a)

    def __neg__(self):
        return SymInt(-self.t)

    def __pos__(self):
        return self

    def __abs__(self):
        return SymInt(z3.If(self.t >= 0, self.t, -self.t))

    # anything involving floats / division concretises (range must be bounded)
    def concrete(self):
        return ctx().concretize(self.t)

    def __index__(self):
        return self.concrete()

    __int__ = __index__

    def __float__(self):
        return float(self.concrete())

    def __truediv__(self, o):
        return self.concrete() / (o.concrete() if isinstance(o, SymInt) else o)

    def __rtruediv__(self, o):
        return o / self.concrete()

    def __floordiv__(self, o):
        return self.concrete() // (o.concrete() if isinstance(o, SymInt) else o)

    def __rfloordiv__(self, o):
        return o // self.concrete()

    def __round__(self, n=None):
        return self.concrete()

    # comparisons
    def _cmp(self, o, f):
        if isinstance(o, float) and o != o:
            return f(0.0, o)          # NaN: every ordered comparison and == is False, != is True
        if isinstance(o, float) and o in (float('inf'), float('-inf')):
            return f(0.0, o)
        if isinstance(o, float):
            if o == int(o):
                o = int(o)
            else:
                return f(self.concrete(), o)
        ot = as_int_term(o)
        if ot is None:
            return NotImplemented
        return SymBool(f(self.t, ot))

    def __eq__(self, o):
        if o is None or isinstance(o, (str, tuple, list)):
            return False
        return self._cmp(o, lambda a, b: a == b)

    def __ne__(self, o):
        if o is None or isinstance(o, (str, tuple, list)):
            return True
        return self._cmp(o, lambda a, b: a != b)

    def __lt__(self, o):
        return self._cmp(o, lambda a, b: a < b)

    def __le__(self, o):
        return self._cmp(o, lambda a, b: a <= b)

    def __gt__(self, o):
        return self._cmp(o, lambda a, b: a > b)

    def __ge__(self, o):
        return self._cmp(o, lambda a, b: a >= b)

    def __hash__(self):
        if self.token:
            return 0
        return hash(self.concrete())

    def __bool__(self):
        return ctx().decide(self.t != 0)

    def __repr__(self):
        return 'SymInt(%s)' % self.t


class SymFloat(object):
    """A double that may only be compared (the library never does arithmetic on the threshold once
    the kernel functions are stubbed)."""
    __slots__ = ('t',)

    def __init__(self, t):
        self.t = t

    def _cmp(self, o, f):
        if isinstance(o, SymFloat):
            return SymBool(f(self.t, o.t))
        if isinstance(o, SymInt):
            raise Unsupported('SymFloat compared with SymInt')
        if isinstance(o, (int, float)) and not isinstance(o, bool):
            x = float(o)
            if x != x:
                return None
            if x == float('inf'):
                return SymBool(f(self.t, z3.IntVal(float_ord(sys.float_info.max) + 1)))
            if x == float('-inf'):
                return SymBool(f(self.t, z3.IntVal(float_ord(-sys.float_info.max) - 1)))
            return SymBool(f(self.t, z3.IntVal(float_ord(x))))
        return NotImplemented

    def __eq__(self, o):
        r = self._cmp(o, lambda a, b: a == b)
        return False if r is None else r

    def __ne__(self, o):
        r = self._cmp(o, lambda a, b: a != b)
        return True if r is None else r

    def __lt__(self, o):
        r = self._cmp(o, lambda a, b: a < b)
        return False if r is None else r

    def __le__(self, o):
        r = self._cmp(o, lambda a, b: a <= b)
        return False if r is None else r

    def __gt__(self, o):
        r = self._cmp(o, lambda a, b: a > b)
        return False if r is None else r

    def __ge__(self, o):
        r = self._cmp(o, lambda a, b: a >= b)
        return False if r is None else r

    def __hash__(self):
        raise Unsupported('hash of SymFloat')

    def _no(self, *a):
        raise Unsupported('arithmetic on SymFloat (threshold arithmetic belongs to engine E1)')

    __add__ = __radd__ = __sub__ = __rsub__ = __mul__ = __rmul__ = _no
    __truediv__ = __rtruediv__ = __neg__ = __float__ = __int__ = __round__ = _no
    __floor__ = __ceil__ = __trunc__ = _no

    def __repr__(self):
        return 'SymFloat(%s)' % self.t


# ---- model extraction -------------------------------------------------------------------------

def model_value(m, x):
    """Concrete Python value of a proxy (or nested container of proxies) under model m."""
    if isinstance(x, SymInt):
        return m.eval(x.t, model_completion=True).as_long()
    if isinstance(x, SymBool):
        return z3.is_true(m.eval(x.t, model_completion=True))
    if isinstance(x, SymFloat):
        return ord_float(m.eval(x.t, model_completion=True).as_long())
    if isinstance(x, (list, tuple)):
        return type(x)(model_value(m, y) for y in x)
    if isinstance(x, dict):
        return dict((k, model_value(m, v)) for k, v in x.items())
    if hasattr(x, 'concretize_with'):
        return x.concretize_with(m)
    return x


# ---- exploration ------------------------------------------------------------------------------

class PathResult(object):
    __slots__ = ('status', 'info', 'decisions', 'forks', 'checks', 'solver_s', 'nontrivial',
                 'sample', 'tags')

    def __init__(self):
        self.status = None       # 'ok' | 'vacuous' | 'violation'
        self.info = None
        self.decisions = 0
        self.forks = 0
        self.checks = 0
        self.solver_s = 0.0
        self.nontrivial = False
        self.sample = None
        self.tags = ()


PATH_START_HOOKS = []


def run_path(fn, prefix, model=None):
    """Execute fn() once under the decision prefix.  Returns (PathResult, pending alternatives)."""
    global _CTX
    for hook in PATH_START_HOOKS:
        hook()
    c = Ctx(prefix, model)
    _CTX = c
    res = PathResult()
    try:
        try:
            out = fn(c)
            res.status = 'ok'
            if isinstance(out, dict):
                res.nontrivial = bool(out.get('nontrivial'))
                res.sample = out.get('sample')
                res.tags = tuple(out.get('tags', ()))
        except Vacuous:
            res.status = 'vacuous'
        except Violation as v:
            res.status = 'violation'
            detail = v.detail
            if callable(detail):
                detail = detail(c.get_model())
            res.info = {'msg': v.msg, 'detail': detail}
        except Inconclusive:
            raise
        except EngineSignal:
            raise
        except Unsupported as e:
            raise Inconclusive('unsupported operation in harness: %s\n%s' % (e, traceback.format_exc()))
    finally:
        _CTX = None
    if len(c.trail) < len(c.prefix):
        raise Inconclusive('path ended before its prefix was consumed (nondeterminism)')
    res.decisions = len(c.trail)
    res.forks = sum(1 for t in c.trail if not t[1])
    res.checks = c.checks
    res.solver_s = c.solver_s
    return res, c.pending


def _viol_key(info):
    d = info.get('detail') if isinstance(info, dict) else None
    if isinstance(d, dict):
        sc = d.get('scenario') or {}
        return (d.get('prop'), d.get('clause'), d.get('subclass'), sc.get('entry'), sc.get('filter'),
                sc.get('measure'))
    return (str(info)[:80],)


class Stats(object):
    def __init__(self):
        self.paths = 0
        self.ok = 0
        self.vacuous = 0
        self.violations = []
        self._vkeys = set()
        self.decisions = 0
        self.forks = 0
        self.checks = 0
        self.solver_s = 0.0
        self.nontrivial = 0
        self.samples = []
        self.tags = {}
        self.inconclusive = None
        self.wall_s = 0.0

    def add(self, r, max_viol=12, max_samples=6):
        self.paths += 1
        self.decisions += r.decisions
        self.forks += r.forks
        self.checks += r.checks
        self.solver_s += r.solver_s
        if r.status == 'ok':
            self.ok += 1
        elif r.status == 'vacuous':
            self.vacuous += 1
        elif r.status == 'violation':
            key = _viol_key(r.info)
            if key in self._vkeys:
                pass
            elif len(self.violations) < max_viol:
                self._vkeys.add(key)
                self.violations.append(r.info)
            else:
                self.violations_dropped = getattr(self, 'violations_dropped', 0) + 1
        if r.nontrivial:
            self.nontrivial += 1
        if r.sample is not None and len(self.samples) < max_samples:
            self.samples.append(r.sample)
        for t in r.tags:
            self.tags[t] = self.tags.get(t, 0) + 1

    def merge(self, o):
        self.paths += o.paths
        self.ok += o.ok
        self.vacuous += o.vacuous
        for v in o.violations:
            k = _viol_key(v)
            if k not in self._vkeys and len(self.violations) < 12:
                self._vkeys.add(k)
                self.violations.append(v)
        self.decisions += o.decisions
        self.forks += o.forks
        self.checks += o.checks
        self.solver_s += o.solver_s
        self.nontrivial += o.nontrivial
        for s in o.samples:
            if len(self.samples) < 6:
                self.samples.append(s)
        for t, n in o.tags.items():
            self.tags[t] = self.tags.get(t, 0) + n
        if o.inconclusive and not self.inconclusive:
            self.inconclusive = o.inconclusive

    def as_dict(self):
        return dict(paths=self.paths, ok=self.ok, vacuous=self.vacuous,
                    violations=len(self.violations), decisions=self.decisions, forks=self.forks,
                    solver_checks=self.checks, solver_s=round(self.solver_s, 3),
                    nontrivial=self.nontrivial, tags=self.tags, inconclusive=self.inconclusive,
                    wall_s=round(self.wall_s, 3))


def explore(fn, prefix=(), stop_on_violation=True, max_paths=None, frontier_limit=None,
            deadline=None, bfs=False):
    """DFS over all paths below `prefix`.  If frontier_limit is given, stop expanding once that many
    pending prefixes exist and return them (used to split work)."""
    st = Stats()
    t0 = time.time()
    stack = [(list(prefix), None)]
    leftover = []
    try:
        while stack:
            if frontier_limit is not None and len(stack) >= frontier_limit:
                leftover = [p for p, _ in stack]
                break
            if deadline is not None and time.time() > deadline:
                st.inconclusive = 'time budget exhausted with %d prefixes pending' % len(stack)
                break
            p, m = stack.pop(0) if bfs else stack.pop()
            try:
                r, pend = run_path(fn, p, m)
            except Inconclusive as e:
                # this path (and its unexplored siblings below it) stays undecided: the run can no
                # longer be exhaustive, but other paths are still explored so that a counterexample
                # elsewhere is not hidden by one hard query
                if not st.inconclusive:
                    st.inconclusive = str(e)
                st.undecided = getattr(st, 'undecided', 0) + 1
                if st.undecided > 50:
                    break
                continue
            st.add(r)
            stack.extend(pend)
            if r.status == 'violation' and stop_on_violation:
                leftover = [q for q, _ in stack]
                break
            if max_paths is not None and st.paths >= max_paths:
                leftover = [q for q, _ in stack]
                break
    except Inconclusive as e:
        st.inconclusive = str(e)
    st.wall_s = time.time() - t0
    return st, leftover


# ---- parallel driver --------------------------------------------------------------------------

_HARNESS = None


def _worker(item):
    prefix, budget, frontier, stop = item
    try:
        if frontier:
            st, left = explore(_HARNESS, prefix, stop_on_violation=stop, frontier_limit=frontier,
                               bfs=True)
        else:
            st, left = explore(_HARNESS, prefix, stop_on_violation=stop, max_paths=budget)
    except Exception:
        st = Stats()
        st.inconclusive = 'worker crashed: ' + traceback.format_exc()
        left = []
    return st, left


def parallel_explore(fn, workers=None, chunk_paths=400, stop_on_violation=True, max_wall_s=None,
                     split=None):
    """Exhaustive exploration of fn on `workers` processes.  Work is handed out as decision
    prefixes; every item explores at most chunk_paths paths and returns its unexplored siblings."""
    import multiprocessing as mp
    global _HARNESS
    workers = workers or int(os.environ.get('VERIF_WORKERS', '0')) or (os.cpu_count() or 4)
    _HARNESS = fn
    total = Stats()
    t0 = time.time()
    if workers <= 1:
        st, left = explore(fn, (), stop_on_violation=stop_on_violation,
                           deadline=(t0 + max_wall_s) if max_wall_s else None)
        st.wall_s = time.time() - t0
        return st
    mpctx = mp.get_context('fork')
    pool = mpctx.Pool(workers)
    try:
        items = [((), None, split or workers * 4, stop_on_violation)]
        while items:
            nxt = []
            for st, left in pool.imap_unordered(_worker, items):
                total.merge(st)
                nxt.extend(left)
                if total.violations and stop_on_violation:
                    break
            if total.violations and stop_on_violation:
                break
            if total.inconclusive and 'worker crashed' in str(total.inconclusive):
                break
            if max_wall_s and time.time() - t0 > max_wall_s:
                total.inconclusive = 'wall budget %ss exhausted with %d prefixes pending' % (
                    max_wall_s, len(nxt))
                break
            items = [(p, chunk_paths, None, stop_on_violation) for p in nxt]
    finally:
        pool.terminate()
        pool.join()
    total.wall_s = time.time() - t0
    return total
