"""Loading the code under test from the working tree (never from bytecode caches) and rebinding
environment names inside its modules while a symbolic harness runs."""
import contextlib
import hashlib
import importlib
import os
import sys

sys.dont_write_bytecode = True
REPO = os.environ.get('VERIF_REPO', '/repo')

_MODS = [
    'py_stringsimjoin',
    'py_stringsimjoin.utils.generic_helper', 'py_stringsimjoin.utils.validation',
    'py_stringsimjoin.utils.token_ordering', 'py_stringsimjoin.utils.missing_value_handler',
    'py_stringsimjoin.utils.simfunctions', 'py_stringsimjoin.utils.converter',
    'py_stringsimjoin.filter.filter_utils', 'py_stringsimjoin.filter.filter',
    'py_stringsimjoin.filter.size_filter', 'py_stringsimjoin.filter.prefix_filter',
    'py_stringsimjoin.filter.position_filter', 'py_stringsimjoin.filter.suffix_filter',
    'py_stringsimjoin.filter.overlap_filter',
    'py_stringsimjoin.index.inverted_index', 'py_stringsimjoin.index.position_index',
    'py_stringsimjoin.index.prefix_index', 'py_stringsimjoin.index.size_index',
    'py_stringsimjoin.join.set_sim_join', 'py_stringsimjoin.join.jaccard_join_py',
    'py_stringsimjoin.join.cosine_join_py', 'py_stringsimjoin.join.dice_join_py',
    'py_stringsimjoin.join.overlap_join_py', 'py_stringsimjoin.join.overlap_coefficient_join_py',
    'py_stringsimjoin.join.edit_distance_join_py', 'py_stringsimjoin.join.edit_distance_join',
    'py_stringsimjoin.matcher.apply_matcher', 'py_stringsimjoin.profiler.profiler',
]

_loaded = {}


def load():
    """Import py_stringsimjoin from REPO (source only) and switch the dispatchers to the
    pure-Python twins (a module attribute, not a source change)."""
    if _loaded:
        return _loaded
    if REPO not in sys.path:
        sys.path.insert(0, REPO)
    for name in list(sys.modules):
        if name == 'py_stringsimjoin' or name.startswith('py_stringsimjoin.'):
            del sys.modules[name]
    for m in _MODS:
        _loaded[m] = importlib.import_module(m)
    pkg = _loaded['py_stringsimjoin']
    if not os.path.realpath(pkg.__file__).startswith(os.path.realpath(REPO)):
        raise RuntimeError('py_stringsimjoin imported from %s, not from %s' % (pkg.__file__, REPO))
    pkg.__use_cython__ = False
    _snapshot_state()
    return _loaded


_STATE = []


def _snapshot_state():
    """Module-level mutable containers of the package (dict / list / set objects bound at module
    level).  They are restored before every explored path so that paths stay independent even if the
    code under test keeps state between calls (such state is what C12 is about: within a path it is
    left alone)."""
    import copy
    seen = set()
    for full, module in _loaded.items():
        for name, obj in list(module.__dict__.items()):
            if name.startswith('__') or id(obj) in seen:
                continue
            if type(obj) in (dict, list, set):
                try:
                    _STATE.append((obj, copy.deepcopy(obj)))
                    seen.add(id(obj))
                except Exception:
                    pass


def reset_state():
    for obj, snap in _STATE:
        try:
            if isinstance(obj, dict):
                obj.clear()
                obj.update(snap)
            elif isinstance(obj, list):
                del obj[:]
                obj.extend(snap)
            else:
                obj.clear()
                obj.update(snap)
        except Exception:
            pass


def mod(short):
    load()
    return _loaded['py_stringsimjoin' + ('.' + short if short else '')]


def source_path(rel):
    return os.path.join(REPO, 'py_stringsimjoin', rel)


def source_hash(rel):
    with open(source_path(rel), 'rb') as f:
        return hashlib.sha256(f.read()).hexdigest()[:16]


def functions_encoded(rels):
    return [{'file': 'py_stringsimjoin/' + r, 'sha256_16': source_hash(r)} for r in rels]


@contextlib.contextmanager
def patched(bindings):
    """bindings: {(module short name, attribute): value}.  Restores on exit."""
    load()
    saved = []
    missing = object()
    try:
        for (m, attr), val in bindings.items():
            module = mod(m)
            saved.append((module, attr, getattr(module, attr, missing)))
            setattr(module, attr, val)
        yield
    finally:
        for module, attr, old in reversed(saved):
            if old is missing:
                delattr(module, attr)
            else:
                setattr(module, attr, old)


def model_bindings():
    """Rebind pd / Parallel / delayed / pyprind in every repo module that imports them."""
    from engine.pathsym import pdmodel
    load()
    b = {}
    for full, module in _loaded.items():
        short = full[len('py_stringsimjoin.'):] if '.' in full else ''
        if not short:
            continue
        d = module.__dict__
        if 'pd' in d:
            b[(short, 'pd')] = pdmodel.PdModule
        if 'Parallel' in d:
            b[(short, 'Parallel')] = pdmodel.Parallel
        if 'delayed' in d:
            b[(short, 'delayed')] = pdmodel.delayed
        if 'pyprind' in d:
            b[(short, 'pyprind')] = pdmodel.PyprindModule
    return b
