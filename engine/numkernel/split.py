"""E1 on utils/generic_helper.split_table: for every table length up to 2^B and every number of
splits up to K the chunk boundaries form a partition (no row lost, none duplicated).

The real function is executed with `len(table)` symbolic (an integral double in [0, 2^B]); the table
is a recorder whose slicing captures the boundary terms.  xrange(num_splits) is concrete."""
import time

import z3

from engine import repo
from . import fp, solve

N = z3.FP('n', fp.F64)


class _Table(object):
    def __init__(self):
        self.slices = []

    def __len__(self):
        raise TypeError('len() must go through the patched len')

    def __getitem__(self, sl):
        self.slices.append((sl.start, sl.stop))
        return ('chunk', len(self.slices) - 1)


def _sym_len(x):
    if isinstance(x, _Table):
        return fp.SymFP(N, True)
    return len(x)


def boundaries(k):
    gh = repo.mod('utils.generic_helper')
    b = dict((('utils.generic_helper', name), v) for name, v in fp.MATH_BINDINGS.items()
             if name in ('round', 'int', 'float'))
    b[('utils.generic_helper', 'len')] = _sym_len
    side = fp.begin_side()
    t = _Table()
    with repo.patched(b):
        out = gh.split_table(t, k)
    if len(out) != k or len(t.slices) != k:
        raise ValueError('split_table(%d) produced %d chunks' % (k, len(out)))
    return t.slices, side.terms


def _t(x):
    return fp.lift(x)


def obligations(k, B):
    """-> [(name, term that must hold for all integral n in [0, 2^B])]"""
    sl, side = boundaries(k)
    obs = []
    obs.append(('first chunk starts at 0', z3.fpEQ(_t(sl[0][0]), fp.fpval(0.0))))
    obs.append(('last chunk ends at len', z3.fpGEQ(_t(sl[-1][1]), N)))
    for i in range(k):
        obs.append(('chunk %d: start <= stop' % i, z3.fpLEQ(_t(sl[i][0]), _t(sl[i][1]))))
        if i + 1 < k:
            obs.append(('chunk %d stop == chunk %d start' % (i, i + 1),
                        z3.fpEQ(_t(sl[i][1]), _t(sl[i + 1][0]))))
    for s, why in side:
        obs.append(('encoding: ' + why, s))
    return obs


def pre(B):
    return [z3.fpGEQ(N, fp.fpval(0.0)), z3.fpLEQ(N, fp.fpval(float(2 ** B))),
            z3.fpEQ(z3.fpRoundToIntegral(fp.RNE, N), N)]


def decide(args):
    k, B, timeout_s, idx = args
    obs = obligations(k, B)
    name, term = obs[idx]
    goal = pre(B) + [z3.Not(term)]
    st, model, dt = solve.solve_cvc5(goal, ('n',), timeout_s)
    q = 1
    if st not in ('sat', 'unsat'):
        st, model, dt2 = solve.solve_z3(goal, (N,), timeout_s)
        dt += dt2
        q += 1
    n = None
    if st == 'sat':
        n = solve.model_float(model, 'n')
    return dict(k=k, name=name, status=st, n=n, solver_s=dt, queries=q)


def run(K, B, workers=16, timeout_s=300):
    import multiprocessing as mp
    t0 = time.time()
    args = []
    for k in range(1, K + 1):
        for idx in range(len(obligations(k, B))):
            args.append((k, B, timeout_s, idx))
    with mp.get_context('fork').Pool(min(workers, len(args))) as pool:
        res = pool.map(decide, args, chunksize=1)
    return res, time.time() - t0
