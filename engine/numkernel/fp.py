"""E1 `numkernel`: exact IEEE-754 double semantics for the library's threshold arithmetic.

The real functions of py_stringsimjoin/filter/filter_utils.py (and split_table, the profiler's
percentage slice) are executed on SymFP proxies; the names they look up as globals (ceil, floor, sqrt,
round, int, float, max, min) are rebound in the module to the symbolic versions below, so the
*source as it is in the working tree* builds the SMT term.  Python float = (_ FloatingPoint 11 53),
RNE everywhere; math.ceil/floor = roundToIntegral RTP/RTN; round(x, k) = CPython's correctly rounded
decimal rounding, encoded exactly through a wide sort (see round_k).
"""
import math

import z3

F64 = z3.Float64()
WIDE = z3.FPSort(15, 80)
RNE = z3.RNE()
RTP = z3.RTP()
RTN = z3.RTN()
RTZ = z3.RTZ()


def fpval(x):
    return z3.FPVal(float(x), F64)


class SideConditions(object):
    """Obligations the encoding itself relies on (exactness of integer arithmetic carried in
    doubles, exactness of the wide product in round_k).  Collected per evaluation; the driver
    discharges them under the query's precondition."""

    def __init__(self):
        self.terms = []

    def add(self, t, why):
        self.terms.append((t, why))


_SIDE = None


def begin_side():
    global _SIDE
    _SIDE = SideConditions()
    return _SIDE


def _side(t, why):
    if _SIDE is not None:
        _SIDE.add(t, why)


def lift(x):
    if isinstance(x, SymFP):
        return x.t
    if isinstance(x, bool):
        return fpval(float(x))
    if isinstance(x, int):
        if abs(x) >= 2 ** 53:
            raise OverflowError('int too large for exact double')
        return fpval(float(x))
    if isinstance(x, float):
        return fpval(x)
    raise TypeError('cannot lift %r' % (x,))


class SymFP(object):
    """A Python float (or an int carried exactly in a double when integral=True)."""
    __slots__ = ('t', 'integral')

    def __init__(self, t, integral=False):
        self.t = t
        self.integral = integral

    def _res(self, t, o, keep_int):
        integral = keep_int and self.integral and (isinstance(o, int) or
                                                   (isinstance(o, SymFP) and o.integral))
        r = SymFP(t, integral)
        if integral:
            _side(z3.fpLEQ(z3.fpAbs(t), fpval(2.0 ** 52)), 'integer result stays exact in a double')
        return r

    def __add__(self, o):
        return self._res(z3.fpAdd(RNE, self.t, lift(o)), o, True)

    def __radd__(self, o):
        return self._res(z3.fpAdd(RNE, lift(o), self.t), o, True)

    def __sub__(self, o):
        return self._res(z3.fpSub(RNE, self.t, lift(o)), o, True)

    def __rsub__(self, o):
        return self._res(z3.fpSub(RNE, lift(o), self.t), o, True)

    def __mul__(self, o):
        return self._res(z3.fpMul(RNE, self.t, lift(o)), o, True)

    def __rmul__(self, o):
        return self._res(z3.fpMul(RNE, lift(o), self.t), o, True)

    def __truediv__(self, o):
        return SymFP(z3.fpDiv(RNE, self.t, lift(o)))

    def __rtruediv__(self, o):
        return SymFP(z3.fpDiv(RNE, lift(o), self.t))

    def __neg__(self):
        return SymFP(z3.fpNeg(self.t), self.integral)

    def __abs__(self):
        return SymFP(z3.fpAbs(self.t), self.integral)

    # comparisons give raw z3 terms (E1 code is straight-line; a Python `if` on them is an error)
    def __le__(self, o):
        return z3.fpLEQ(self.t, lift(o))

    def __lt__(self, o):
        return z3.fpLT(self.t, lift(o))

    def __ge__(self, o):
        return z3.fpGEQ(self.t, lift(o))

    def __gt__(self, o):
        return z3.fpGT(self.t, lift(o))

    def __eq__(self, o):
        return z3.fpEQ(self.t, lift(o))

    def __ne__(self, o):
        return z3.Not(z3.fpEQ(self.t, lift(o)))

    def __hash__(self):
        return id(self)

    def __bool__(self):
        raise TypeError('symbolic double used as a truth value')

    def __repr__(self):
        return 'SymFP(%s)' % self.t


def _finite_small(t, why):
    _side(z3.And(z3.Not(z3.fpIsNaN(t)), z3.Not(z3.fpIsInf(t)), z3.fpLEQ(z3.fpAbs(t), fpval(2.0 ** 52))),
          why)


def sym_ceil(x):
    if not isinstance(x, SymFP):
        return math.ceil(x)
    if x.integral:
        return x
    _finite_small(x.t, 'ceil argument finite and below 2^52 (else OverflowError / inexact)')
    return SymFP(z3.fpRoundToIntegral(RTP, x.t), True)


def sym_floor(x):
    if not isinstance(x, SymFP):
        return math.floor(x)
    if x.integral:
        return x
    _finite_small(x.t, 'floor argument finite and below 2^52 (else OverflowError / inexact)')
    return SymFP(z3.fpRoundToIntegral(RTN, x.t), True)


def sym_sqrt(x):
    if not isinstance(x, SymFP):
        return math.sqrt(x)
    return SymFP(z3.fpSqrt(RNE, x.t))


def round_k(t, k):
    """CPython round(x, k), k > 0: decimal rounding (half-even on the exact binary value) then the
    nearest double.  x*10^k is exact in the wide sort (53+ceil(k*log2 10) <= 80 significand bits), so
    roundToIntegral RNE there is the exact half-even decimal rounding; the integral value converts
    back to Float64 exactly while |x*10^k| < 2^53 (side condition); /10^k is one IEEE division,
    which is how the correctly rounded result of an integer over 10^k arises."""
    p = float(10 ** k)
    wide = z3.fpToFP(RNE, t, WIDE)
    prod = z3.fpMul(RNE, wide, z3.FPVal(p, WIDE))
    r = z3.fpRoundToIntegral(RNE, prod)
    back = z3.fpToFP(RNE, r, F64)
    _side(z3.And(z3.Not(z3.fpIsNaN(t)), z3.Not(z3.fpIsInf(t)),
                 z3.fpLT(z3.fpAbs(t), fpval(2.0 ** 53 / p))),
          'round(x,%d): |x|*10^%d < 2^53 so the wide-sort encoding is exact' % (k, k))
    return z3.fpDiv(RNE, back, fpval(p))


def sym_round(x, ndigits=None):
    if not isinstance(x, SymFP):
        return round(x) if ndigits is None else round(x, ndigits)
    if ndigits is None:
        _finite_small(x.t, 'round argument finite and below 2^52')
        return SymFP(z3.fpRoundToIntegral(RNE, x.t), True)
    if ndigits <= 0:
        raise NotImplementedError('round(x, %r)' % ndigits)
    return SymFP(round_k(x.t, ndigits))


def sym_int(x):
    if isinstance(x, SymFP):
        if x.integral:
            return x
        _finite_small(x.t, 'int() argument finite and below 2^52')
        return SymFP(z3.fpRoundToIntegral(RTZ, x.t), True)
    return int(x)


def sym_float(x):
    if isinstance(x, SymFP):
        return SymFP(x.t, False)
    return float(x)


def sym_max(*a):
    if len(a) == 1:
        a = tuple(a[0])
    if not any(isinstance(x, SymFP) for x in a):
        return max(*a)
    r = a[0]
    for y in a[1:]:
        rt, yt = lift(r), lift(y)
        integral = all(isinstance(v, int) or (isinstance(v, SymFP) and v.integral) for v in (r, y))
        r = SymFP(z3.If(z3.fpGEQ(rt, yt), rt, yt), integral)
    return r


def sym_min(*a):
    if len(a) == 1:
        a = tuple(a[0])
    if not any(isinstance(x, SymFP) for x in a):
        return min(*a)
    r = a[0]
    for y in a[1:]:
        rt, yt = lift(r), lift(y)
        integral = all(isinstance(v, int) or (isinstance(v, SymFP) and v.integral) for v in (r, y))
        r = SymFP(z3.If(z3.fpLEQ(rt, yt), rt, yt), integral)
    return r


class _MathProxy(object):
    """stands for the `math` module inside a module under test that says `import math` /
    `math.ceil(...)` instead of `from math import ceil` (same functions, other spelling)"""

    def __getattr__(self, name):
        if name in ('ceil', 'floor', 'sqrt'):
            return MATH_BINDINGS[name]
        return getattr(math, name)


MATH_BINDINGS = {'ceil': sym_ceil, 'floor': sym_floor, 'sqrt': sym_sqrt, 'round': sym_round,
                 'int': sym_int, 'float': sym_float, 'max': sym_max, 'min': sym_min}
MATH_BINDINGS['math'] = _MathProxy()
# the unary protocols the builtins / the real math module fall back to
SymFP.__ceil__ = lambda self: sym_ceil(self)
SymFP.__floor__ = lambda self: sym_floor(self)
SymFP.__round__ = lambda self, k=None: sym_round(self, k)


def fp_to_float(v):
    """z3 Float64 numeral -> the same Python float, bit for bit."""
    if v.isNaN():
        return float('nan')
    if v.isInf():
        return float('-inf') if v.isNegative() else float('inf')
    sign = -1.0 if v.sign() else 1.0
    if v.isZero():
        return sign * 0.0
    if v.ebits() != 11 or v.sbits() != 53:
        raise ValueError('not a Float64 numeral')
    s = v.significand_as_long()
    if v.isSubnormal():
        return sign * math.ldexp(s, -1074)
    e = v.exponent_as_long(biased=False)
    return sign * math.ldexp(2 ** 52 + s, e - 52)


def eval_concrete(term, subst):
    """Substitute constants and simplify to a Python float (translator validation)."""
    v = z3.simplify(z3.substitute(term, *subst))
    if not z3.is_fp_value(v):
        raise ValueError('not a constant after substitution: %s' % v)
    return fp_to_float(v)
