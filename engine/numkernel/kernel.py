"""E1 obligations about the four arithmetic kernel functions of filter/filter_utils.py: the kernel
contract K (see DESIGN.md section 4) and the size-filter tightness of C14.

An obligation is a picklable descriptor; `build(desc)` re-executes the real function from the
working tree on SymFP proxies and returns (pre, conclusion, side conditions) as z3 terms over the one
Float64 variable t.  `decide(desc)` asks the solvers whether pre and not conclusion is satisfiable.
"""
import math
import os
import time

import z3

from engine import repo
from . import fp, solve

T_MIN = 1e-4
T = z3.FP('t', fp.F64)
MEASURES = ('JACCARD', 'COSINE', 'DICE')


class _Tok(object):
    qval = 2


def _kernel():
    return repo.mod('filter.filter_utils')


def _call(fname, measure, *sizes):
    fu = _kernel()
    b = dict((('filter.filter_utils', k), v) for k, v in fp.MATH_BINDINGS.items())
    with repo.patched(b):
        f = getattr(fu, fname)
        x = fp.SymFP(T)
        if fname == 'get_prefix_length':
            return f(sizes[0], measure, x, _Tok())
        if fname == 'get_overlap_threshold':
            return f(sizes[0], sizes[1], measure, x, _Tok())
        return f(sizes[0], measure, x)


def call_concrete(fname, measure, t, *sizes):
    fu = _kernel()
    f = getattr(fu, fname)
    if fname == 'get_prefix_length':
        return f(sizes[0], measure, t, _Tok())
    if fname == 'get_overlap_threshold':
        return f(sizes[0], sizes[1], measure, t, _Tok())
    return f(sizes[0], measure, t)


def qual_bound(measure, n, m, o):
    """largest threshold at which a pair with these sizes satisfies '>=' both raw and rounded."""
    from harness import ref
    raw = ref.raw_score(measure, n, m, o)
    return min(raw, round(raw, 4))


def _le(a, b):
    """a <= b where either may be a SymFP / python number; returns z3 Bool."""
    if isinstance(a, fp.SymFP):
        return a <= b
    if isinstance(b, fp.SymFP):
        return b >= a
    return z3.BoolVal(a <= b)


def build(desc):
    """-> (pre terms, conclusion term, [(side term, why)])"""
    kind, measure = desc['kind'], desc['measure']
    side = fp.begin_side()
    pre = [z3.fpGEQ(T, fp.fpval(T_MIN)), z3.fpLEQ(T, fp.fpval(min(desc.get('c', 1.0), 1.0)))]
    if kind == 'lb':
        n, m = desc['n'], desc['m']
        concl = _le(_call('get_size_lower_bound', measure, m), n)
    elif kind == 'ub':
        n, m = desc['n'], desc['m']
        concl = _le(n, _call('get_size_upper_bound', measure, m))
    elif kind == 'alpha':
        n, m, o = desc['n'], desc['m'], desc['o']
        al = _call('get_overlap_threshold', measure, n, m)
        concl = _le(al, o)
    elif kind == 'pl':
        n, o = desc['n'], desc['o']
        pl = _call('get_prefix_length', measure, n)
        concl = _le(n - o + 1, pl)
    elif kind == 'range':
        n, part = desc['n'], desc['part']
        if part == 'pl>=1':
            concl = _le(1, _call('get_prefix_length', measure, n))
        elif part == 'pl<=n':
            concl = _le(_call('get_prefix_length', measure, n), n)
        elif part == 'lb<=n':
            concl = _le(_call('get_size_lower_bound', measure, n), n)
        elif part == 'ub>=n':
            concl = _le(n, _call('get_size_upper_bound', measure, n))
        else:
            concl = _le(0, _call('get_size_lower_bound', measure, n))
    elif kind == 'mono':
        n, n2 = desc['n'], desc['n2']
        p1, p2 = _call('get_prefix_length', measure, n), _call('get_prefix_length', measure, n2)
        s1, s2 = n - p1, n2 - p2
        concl = z3.And(_le(s1, s2), _le(s2 - s1, n2 - n))
    elif kind == 'tight':
        # C14: best attainable similarity + 1e-4 (+guard) < t  =>  size window excludes m
        n, m = desc['n'], desc['m']
        lb, ub = _call('get_size_lower_bound', measure, n), _call('get_size_upper_bound', measure, n)
        pre = [z3.fpGEQ(T, fp.fpval(max(T_MIN, desc['tlo']))), z3.fpLEQ(T, fp.fpval(1.0))]
        concl = z3.Not(z3.And(_le(lb, m), _le(m, ub)))
    elif kind == 'twin':
        # deliberately false strengthening: must come back sat (pipeline can find counterexamples)
        n = desc['n']
        pl = _call('get_prefix_length', measure, n)
        concl = _le(n + 1, pl)
    else:
        raise ValueError(kind)
    return pre, concl, side.terms


def key_of(desc):
    pre, concl, _ = build(desc)
    return (desc['kind'], desc['measure'], concl.sexpr())


def decide(desc, primary='cvc5', timeout_s=None, cross=False):
    """-> dict(status 'unsat'|'sat'|'unknown', t=float or None, solver_s, solver, side_ok)"""
    timeout_s = timeout_s or float(os.environ.get('E1_TIMEOUT_S', '180'))
    pre, concl, side = build(desc)
    out = {'desc': desc, 'solver_s': 0.0, 'queries': 0}
    goal = pre + [z3.Not(concl)]
    order = [primary, 'z3' if primary == 'cvc5' else 'cvc5']
    status, t = 'unknown', None
    for sv in order:
        if sv == 'cvc5':
            st, model, dt = solve.solve_cvc5(goal, ('t',), timeout_s)
        else:
            st, model, dt = solve.solve_z3(goal, (T,), timeout_s)
        out['solver_s'] += dt
        out['queries'] += 1
        if st in ('sat', 'unsat'):
            status = st
            out['solver'] = sv
            if st == 'sat':
                t = solve.model_float(model, 't')
            break
        out.setdefault('fallbacks', []).append('%s:%s' % (sv, st))
    out['status'] = status
    out['t'] = t
    if status == 'unsat' and cross:
        other = order[1] if out['solver'] == order[0] else order[0]
        if other == 'cvc5':
            st2, _, dt = solve.solve_cvc5(goal, ('t',), timeout_s)
        else:
            st2, _, dt = solve.solve_z3(goal, (T,), timeout_s)
        out['solver_s'] += dt
        out['queries'] += 1
        out['cross'] = '%s:%s' % (other, st2)
        if st2 == 'sat':
            out['status'] = 'disagree'
    # side conditions of the encoding, under the same precondition
    if status == 'unsat' and side:
        sgoal = pre + [z3.Not(z3.And(*[s for s, _ in side]))]
        st, _, dt = solve.solve_cvc5(sgoal, (), timeout_s)
        if st not in ('unsat', 'sat'):
            st, _, dt2 = solve.solve_z3(sgoal, (), timeout_s)
            dt += dt2
        out['solver_s'] += dt
        out['queries'] += 1
        out['side'] = st
        if st != 'unsat':
            out['status'] = 'unknown'
            out['why'] = 'encoding side condition not discharged: %s' % st
    return out


def sizes_for(tier, measure):
    if tier == 'thorough':
        if measure == 'COSINE':
            return list(range(1, 9)) + [12, 25]
        return list(range(1, 11)) + [12, 16, 25]
    return [1, 2, 3, 4, 5, 7, 9, 25]


def contract_obligations(measure, S, kinds=('lb', 'ub', 'alpha', 'pl', 'range', 'mono')):
    """All K obligations for a measure over size set S, merged by identical conclusion term (the
    member with the weakest precondition - largest c - stands for the group)."""
    descs = []
    S = sorted(S)
    for kd in ('lb', 'ub'):
        if kd not in kinds:
            continue
        for n in S:
            for m in S:
                if (kd == 'lb' and n >= m) or (kd == 'ub' and n <= m):
                    continue      # covered by K-self (range obligations), which hold for every t
                c = qual_bound(measure, n, m, min(n, m))
                if c >= T_MIN:
                    descs.append(dict(kind=kd, measure=measure, n=n, m=m, c=c))
    if 'alpha' in kinds:
        for n in S:
            for m in S:
                for o in range(1, min(n, m) + 1):
                    c = qual_bound(measure, n, m, o)
                    if c >= T_MIN:
                        descs.append(dict(kind='alpha', measure=measure, n=n, m=m, o=o, c=c))
    if 'pl' in kinds:
        for n in S:
            for o in range(1, n + 1):
                cs = [qual_bound(measure, n, m, o) for m in S if m >= o]
                if cs and max(cs) >= T_MIN:
                    descs.append(dict(kind='pl', measure=measure, n=n, o=o, c=max(cs)))
    if 'range' in kinds:
        for n in S:
            for part in ('pl>=1', 'pl<=n', 'lb<=n', 'ub>=n'):
                descs.append(dict(kind='range', measure=measure, n=n, part=part, c=1.0))
    if 'mono' in kinds:
        for a, b in zip(S, S[1:]):
            descs.append(dict(kind='mono', measure=measure, n=a, n2=b, c=1.0))
    groups = {}
    for d in descs:
        k = key_of(d)
        g = groups.get(k)
        if g is None or d['c'] > g['c']:
            d = dict(d)
            d['members'] = (g['members'] if g else 0) + 1
            groups[k] = d
        else:
            g['members'] += 1
    return list(groups.values()), len(descs)


def tightness_obligations(measure, S):
    """C14: for sizes (n, m): if even the best attainable similarity (overlap = min(n,m)) lies more
    than 1e-4 below t, the size window of n must exclude m."""
    from harness import ref
    out = []
    for n in S:
        for m in S:
            best = ref.raw_score(measure, n, m, min(n, m))
            tlo = best + 1e-4 + 1e-9
            if tlo <= 1.0:
                out.append(dict(kind='tight', measure=measure, n=n, m=m, tlo=tlo, best=best))
    return out


def _decide_star(a):
    return decide(*a)


def run_all(descs, primary='cvc5', cross_every=0, workers=None, timeout_s=None, seed=0):
    import multiprocessing as mp
    workers = workers or int(os.environ.get('VERIF_WORKERS', '0')) or (os.cpu_count() or 4)
    args = []
    for i, d in enumerate(descs):
        cross = bool(cross_every) and ((i + seed) % cross_every == 0)
        args.append((d, primary, timeout_s, cross))
    t0 = time.time()
    if workers <= 1:
        res = [decide(*a) for a in args]
    else:
        with mp.get_context('fork').Pool(workers) as pool:
            res = pool.map(_decide_star, args, chunksize=1)
    return res, time.time() - t0
